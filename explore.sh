#!/bin/bash
# usage: explore.sh PROP SEED COUNT WORKERS  -> writes /tmp/explore-PROP-SEED.txt (violation keys with example indices)
P=$1; S=$2; N=$3; W=${4:-6}; CMD=${5:-run}
cp /verif/target/debug/vsim /tmp/vsim-explore-$P-$S
for w in $(seq 0 $((W-1))); do
  /tmp/vsim-explore-$P-$S $CMD --prop $P --seed $S --from $w --step $W --count $((N/W)) > /tmp/explore-$P-$S-$w.jsonl 2>/dev/null &
done
wait
cat /tmp/explore-$P-$S-*.jsonl | python3 /tmp/summ.py > /tmp/explore-$P-$S.txt
rm -f /tmp/explore-$P-$S-*.jsonl /tmp/vsim-explore-$P-$S

#!/bin/bash
# randtest.sh <seeded dir> [count per worker] : C17 randomized cases only, on a scratch worktree
d=$1; N=${2:-25}; W=8
WT=/var/tmp/wt-seed; ST=/var/tmp/seedtest
if [ ! -d $WT ]; then git -C /repo worktree add --detach $WT main -q; fi
if [ ! -d $ST/sim ]; then
  mkdir -p $ST/sim/.cargo
  printf '[net]\noffline = true\n[build]\ntarget-dir = "%s/target"\n' $ST > $ST/sim/.cargo/config.toml
  ln -sfn $WT/src $ST/sim/reposrc
  ln -sfn /verif/vendor $ST/vendor
fi
cd $WT && git checkout -q -- . && git checkout -q --detach main && git apply $d/patch.diff || { echo "PATCH DOES NOT APPLY"; exit 3; }
rsync -a --delete --exclude reposrc --exclude .cargo /verif/sim/ $ST/sim/
cd $ST/sim && cargo build 2>&1 | grep -E "^error" -A8
for w in $(seq 0 $((W-1))); do
  $ST/target/debug/vsim run --prop C17 --seed 1 --from $((5+6*w)) --step $((6*W)) --count $N > $ST/out-$w.jsonl 2>/dev/null &
done
wait
cat $ST/out-*.jsonl | python3 /verif/summ.py | grep -v "^cov"
rm -f $ST/out-*.jsonl
cd $WT && git checkout -q -- .

import json,sys,glob,os
pid_full=sys.argv[1]          # e.g. C01e
prop=pid_full[:3]
p=[json.loads(l) for l in open('/verif/properties.jsonl') if json.loads(l)['id']==prop][0]
taken=[]
for d in sorted(glob.glob('/verif/seeded/%s*'%prop)):
    try:
        m=json.load(open(d+'/meta.json')); taken.append('- '+m.get('summary','')[:300].replace('\n',' '))
    except Exception: pass
WT='/var/tmp/wt-'+pid_full
txt=f"""You are helping to evaluate how well a verification effort detects regressions in the Rust project nervosnetwork/ckb-light-client (a CKB blockchain light client). Your job: write ONE realistic, subtle code change that BREAKS the semantic property below, while the project still compiles and its whole existing test suite still passes, plus a demonstration test that exposes the breakage.

Your private scratch git worktree of the repository is {WT} (detached checkout of the current main; a warm cargo target directory is already at {WT}/target). Work ONLY inside {WT} and /var/tmp/seeded_out/{pid_full}. Never touch /repo or /verif, and do not read anything under /verif. The sandbox has no network: always pass --offline to cargo. Use: cd {WT} && TMPDIR=/var/tmp/tmp-{pid_full} CARGO_TARGET_DIR={WT}/target cargo test --offline  (the full suite has 115 tests and takes about 1-3 minutes; other jobs share the machine, so please use at most `-j 4` for cargo builds, e.g. CARGO_BUILD_JOBS=4).

THE PROPERTY (id {prop}): {p['title']}
Statement: {p['statement']}
Quantifier (what it must hold for): {p['quantifier']}
Why unit tests cannot settle it: {p['why_tests_cant']}
Code anchors: {json.dumps(p['anchors'])}

WHAT KIND OF CHANGE
- It must look like something a developer could plausibly commit (a refactoring slip, an 'optimisation', a wrong variable / comparison / boundary, a reordered pair of statements, a missing re-check, a cache that is not invalidated, two sites that each look fine alone) - not sabotage with a magic constant, and not a change that ordinary use would expose at once.
- It must need something SPECIFIC to manifest: a particular interleaving of threads or of peer messages / timers, a crash or fault at a particular point, a multi-step sequence of operations, an unusual-but-legal input or peer behaviour, a particular chain shape (fork depth, epoch boundary, check-point boundary, batch boundary), or two cooperating sites.
- It must change non-test code under src/ only (do not edit existing tests, Cargo.toml, or anything guarded by `#[cfg(feature = "verif")]` - leave those hook lines in place and working; if you move code around a hook line, keep the hook with the statement it precedes).
- The whole existing test suite (115 tests), unedited, must still pass with your change.
- Ideas that were ALREADY used in earlier rounds - pick something clearly different (a different code site or a different mechanism):
{chr(10).join(taken) if taken else '- (none yet)'}

DELIVERABLES in /var/tmp/seeded_out/{pid_full}/ :
1. patch.diff - `git diff` of your change to src/ (non-test code only), applying cleanly to the clean worktree with `git apply`.
2. demo.diff - a separate `git diff` that only ADDS a new test (e.g. a new module src/tests/seeded_demo.rs registered in src/tests/mod.rs, or a new test function) which PASSES on the original code and FAILS with patch.diff applied. It must apply cleanly on the clean tree, independently of patch.diff. The demonstration should drive real code of the repository (protocol handlers, Storage, RPC impls as the existing tests under src/tests do), not a re-implementation.
3. meta.json with the keys: "property" ("{prop}"), "summary" (what was changed and why it breaks the property), "needs_to_manifest" (the specific interleaving / crash point / sequence / input it needs), "files_changed", "demo_test_name", "ran" (the exact commands you ran and their outcomes: demo on original = pass, demo with patch = fail with which message, full suite with patch only = 115 passed).

Before you finish: verify all three claims yourself by actually running them (clean tree + demo -> demo passes; patch + demo -> demo fails; patch only -> full suite 115 passed), then leave the worktree clean (`git -C {WT} checkout -- . && git -C {WT} clean -fd -e target`). Report in your final message a 5-line summary: the change, what it needs to manifest, and the three verification outcomes.
"""
open('/var/tmp/prompt-%s.txt'%pid_full,'w').write(txt)
print(len(txt))

#!/bin/bash
# quickrun.sh PROP N [W] [seed]: run N runs of PROP on the current /verif binary, print violation keys
P=$1; N=$2; W=${3:-8}; S=${4:-1}; CMD=run; [ "$P" = C08 ] && CMD=crash
for w in $(seq 0 $((W-1))); do
  /verif/target/debug/vsim $CMD --prop $P --seed $S --from $w --step $W --count $((N/W)) > /var/tmp/qr-$P-$w.jsonl 2>/dev/null &
done; wait
cat /var/tmp/qr-$P-*.jsonl | python3 /verif/summ.py | grep -v "^cov"; 
cat /var/tmp/qr-$P-*.jsonl | python3 -c "
import sys,json,collections
c=collections.Counter()
for l in sys.stdin:
    d=json.loads(l)
    for k,v in d.get('stats',{}).items():
        if any(x in k for x in sys.argv[1:]): c[k]+=v
for k,v in sorted(c.items()): print('  ',k,v)
" ${STATS:-nothing_}
rm -f /var/tmp/qr-$P-*.jsonl

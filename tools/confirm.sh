#!/bin/bash
# confirm.sh <id>: re-verify a sub-agent's three claims in its scratch worktree
id=$1; WT=/var/tmp/wt-$id; O=/var/tmp/seeded_out/$id
cd $WT && git checkout -q -- . && git clean -fdq -e target
export TMPDIR=/var/tmp/tmp-$id CARGO_TARGET_DIR=$WT/target CARGO_BUILD_JOBS=6
name=$(python3 -c "import json;print(json.load(open('$O/meta.json'))['demo_test_name'].split('::')[-1])")
git apply $O/demo.diff || { echo "DEMO DOES NOT APPLY"; exit 3; }
echo "--- demo on original:"; cargo test --offline $name 2>&1 | grep -E "^test result|^test .*(ok|FAILED)|panicked" | head -5
git apply $O/patch.diff || { echo "PATCH DOES NOT APPLY on demo"; }
echo "--- demo with patch:"; cargo test --offline $name 2>&1 | grep -E "^test result|^test .*(ok|FAILED)|panicked" | head -5
git checkout -q -- . && git clean -fdq -e target
git apply $O/patch.diff
echo "--- full suite with patch only:"; cargo test --offline 2>&1 | grep -E "^test result|FAILED" | head -5
git checkout -q -- . && git clean -fdq -e target

#!/bin/bash
# mkwt.sh <id>  -> scratch worktree /var/tmp/wt-<id> with a warm target dir
id=$1; WT=/var/tmp/wt-$id
git -C /repo worktree add --detach $WT main -q
cp -r /repo/target $WT/target
mkdir -p /var/tmp/tmp-$id /var/tmp/seeded_out/$id
echo $WT

#!/bin/bash
# usage: seedtest.sh <dir-with-patch.diff> <PROP> [runs] [workers]
# Tries a seeded change without touching /repo: a scratch worktree (/var/tmp/wt-seed) and a scratch
# copy of /verif/sim bound to it (/var/tmp/seedtest) are used; prints the violation keys of PROP.
d=$1; P=$2; N=${3:-600}; W=${4:-6}
cd /var/tmp/wt-seed && git checkout -q -- . && git checkout -q --detach main && git apply $d/patch.diff || { echo "PATCH DOES NOT APPLY"; exit 3; }
rsync -a --delete --exclude reposrc --exclude .cargo /verif/sim/ /var/tmp/seedtest/sim/
cd /var/tmp/seedtest/sim && cargo build 2>&1 | grep -E "^error" -A8
CMD=run; if [ "$P" = "C08" ]; then CMD=crash; N=$((N/10)); fi   # C08: N/10 histories, every sampled write boundary
for w in $(seq 0 $((W-1))); do
  /var/tmp/seedtest/target/debug/vsim $CMD --prop $P --seed 1 --from $w --step $W --count $((N/W)) > /var/tmp/seedtest/out-$w.jsonl 2>/dev/null &
done
wait
cat /var/tmp/seedtest/out-*.jsonl | python3 /var/tmp/summ.py | grep -v "^cov"
rm -f /var/tmp/seedtest/out-*.jsonl
cd /var/tmp/wt-seed && git checkout -q -- .

#!/bin/bash
# usage: seedtest.sh <dir-with-patch.diff> <PROP> [runs] [workers]
# Tries a seeded change without touching /repo: a scratch worktree (/var/tmp/wt-seed) and a scratch
# copy of /verif/sim bound to it (/var/tmp/seedtest) are used; prints the violation keys of PROP.
# LANE (env, default empty): a second lane (LANE=2) uses /var/tmp/wt-seed2 and /var/tmp/seedtest2, so
# that two trials can run side by side.
d=$1; P=$2; N=${3:-600}; W=${4:-6}
WT=/var/tmp/wt-seed$LANE; ST=/var/tmp/seedtest$LANE
if [ ! -d $WT ]; then git -C /repo worktree add --detach $WT main -q; fi
if [ ! -d $ST/sim ]; then
  mkdir -p $ST/sim/.cargo
  printf '[net]\noffline = true\n[build]\ntarget-dir = "%s/target"\n' $ST > $ST/sim/.cargo/config.toml
  ln -sfn $WT/src $ST/sim/reposrc
  ln -sfn /verif/vendor $ST/vendor
fi
cd $WT && git checkout -q -- . && git checkout -q --detach main && git apply $d/patch.diff || { echo "PATCH DOES NOT APPLY"; exit 3; }
rsync -a --delete --exclude reposrc --exclude .cargo /verif/sim/ $ST/sim/
cd $ST/sim && cargo build 2>&1 | grep -E "^error" -A8
CMD=run; if [ "$P" = "C08" ]; then CMD=crash; N=$((N/10)); fi   # C08: N/10 histories, every sampled write boundary
for w in $(seq 0 $((W-1))); do
  $ST/target/debug/vsim $CMD --prop $P --seed 1 --from $w --step $W --count $((N/W)) > $ST/out-$w.jsonl 2>/dev/null &
done
wait
cat $ST/out-*.jsonl | python3 /verif/summ.py | grep -v "^cov"
rm -f $ST/out-*.jsonl
cd $WT && git checkout -q -- .

#!/usr/bin/env python3
"""Regenerates MANIFEST.json from the table below (kept next to `vf`'s PROPS)."""
import json
import subprocess

HOOK_COMMITS = subprocess.run(
    ["git", "-C", "/repo", "log", "--format=%H %s", "--grep=^verif:"],
    stdout=subprocess.PIPE, text=True).stdout.strip().splitlines()

TRUST = ("Trusted base: the honest full-node model (sim/src/server.rs, written from RFC 44/45 and ckb 0.113's servers, "
         "which are not available offline), the reference oracles in sim/src/{refidx,oracle*}.rs, RocksDB's atomicity of a "
         "single write / WriteBatch, and the mirrored boot sequence (the tentacle transport, HTTP layer and NetRpcImpl do not run). "
         "Seeded sampling: a clean batch is evidence, not proof.")

CLAIMS = {
    "C01": ("exploration", "byzantine mutation of honest proof answers; accepted => canonical",
            "Seeded search over (chain, start point, own random request, structure-aware mutation of the honest SendLastStateProof, peer state): whenever the trusted snapshot (per-peer prove state, LAST_STATE, LAST_N_HEADERS, get_header answers) changes, the delivered message must decode field-wise to the canonical honest answer to the outstanding request; otherwise the snapshot must be byte-identical. Exploration is the right level: the input space (chains x requests x mutations x states) is unbounded and the decisive ingredient is the client's own random request, which only a running client produces.",
            "DESIGN §3 C01"),
    "C02": ("exploration", "byzantine mutation of block / blocks-proof / transactions-proof answers vs ground truth",
            "Seeded search over mutated, substituted and unsolicited SendBlock / SendBlocksProof(v0,v1) / SendTransactionsProof(v0,v1) deliveries during live filter sync and fetches; after every delivery the RPC answers and the raw keyspace (TxHash values, Cell*/Tx* keys, BlockHash values) must be contained in the ground-truth chain tree.",
            "DESIGN §3 C02"),
    "C03": ("exploration", "deterministic simulation: full sync vs independent reference indexer",
            "Whole-client simulation (real storage, handlers, RPC) against honest modelled full nodes with seeded batch sizes, delays, stalls, disconnects, restarts and interleaved user RPCs; at every caught-up instant the paged get_cells / get_transactions / get_cells_capacity answers of every registered script are compared with an independent reference indexer over the canonical chain.",
            "DESIGN §3 C03"),
    "C04": ("exploration", "deterministic simulation: reorgs at arbitrary sync phases vs reference indexer of the new chain",
            "Seeded fork switches (below / at / above last-N, idle, mid-download, mid-batch, after restart, via child fast path / rebased start / sampled request) followed by re-convergence; the C03 oracle is evaluated against the new canonical chain and a long fork must leave the store untouched until the documented abort.",
            "DESIGN §3 C04"),
    "C05": ("exploration", "deterministic simulation: honest-only world, zero bans + bounded convergence",
            "Only protocol-following peers (variable difficulty over many epochs, growth, lagging peers, stalls, lost answers, disconnects, restarts, clock jumps): any ban of such a peer is a violation, and once faults stop the stored tip must reach the heaviest announced tip within the run's virtual-time bound.",
            "DESIGN §3 C05"),
    "C06": ("exploration", "byzantine BlockFilters vs ground-truth filters, end-to-end completeness",
            "Mutated BlockFilters (filter bytes, block hashes, start number, counts, replays, unproven senders) during filter sync; step invariant on every advance of the filtered height plus the C03 oracle after the deviating peers are gone.",
            "DESIGN §3 C06"),
    "C07": ("exploration", "quorum / immutability / monotonicity invariants after every event",
            "N peers with honest or deviating check-point vectors, all delivery and tick orders, restarts; after every event the finalized index never decreases, finalized values never change, every newly final value has a quorum of currently proven peers that delivered it, and with fewer deviating peers than the quorum every final value equals the ground truth.",
            "DESIGN §3 C07"),
    "C08": ("fault_enumeration", "crash before every storage write boundary, restart from the store, compare with crash-free twin",
            "For generated sync histories the write hook enumerates every write boundary k: the run is re-executed identically, the process 'dies' before write k, everything in memory is dropped, the store is reopened (twice), sync continues to a caught-up instant, and the RPC answers are compared with the reference indexer and the crash-free twin.",
            "DESIGN §3 C08"),
    "C09": ("exploration", "set_scripts sequences at arbitrary sync phases vs README model + per-step completeness",
            "Sequences of all / partial / delete commands (empty lists, duplicates, start numbers around current progress) issued while filter batches and matched-block downloads are under way; the script set must follow the README model and, at every step and finally, every script get_scripts reports at height h has every ground-truth entry in (start, h].",
            "DESIGN §3 C09"),
    "C10": ("exploration", "catch_unwind around every handler under crafted / boundary / random messages in every peer state",
            "Random bytes, truncations, boundary-valued and self-consistent crafted messages of every union variant on all four protocols, delivered in every reachable peer state, plus the always-on monitor in every other scenario; any unwind other than the documented long-fork abort is a violation.",
            "DESIGN §3 C10"),
    "C11": ("exploration", "transition-relation monitor over per-peer state under random event orders",
            "Random event sequences (connect, disconnect, ticks, solicited / unsolicited / stale / duplicated messages) with the simulated clock around the 8 s / 60 s boundaries; a monitor checks edges, proof acceptance only for the outstanding request, timeout disconnects, and cleanup after disconnect.",
            "DESIGN §3 C11"),
    "C12": ("exploration", "stored (tip, total difficulty, last-N) vs ground truth after every event and across reopen",
            "Always-on monitor plus scenarios with competing forks and deviating child announcements: the stored tip is a real proven block, the stored total difficulty equals the chain's cumulative difficulty, it changes only to strictly greater difficulty, last-N are ancestors of the tip, and a reopen reproduces the triple.",
            "DESIGN §3 C12"),
    "C15": ("exploration", "always-on monitor of every GetLastStateProof the running client emits",
            "Every proof request built by the real client in honest and faulty runs (fresh start, restart with stored last-N, previous proof, growth, gaps of 1 / last-N / last-N+1 / thousands) is checked for start < last, boundary and sample ordering and range, trusted start hash, no samples for small gaps and the independently recomputed FlyClient sample count.",
            "DESIGN §3 C15"),
    "C16": ("exploration", "status-sequence automaton + (tx, block) truthfulness + bounded completion",
            "fetch_header / fetch_transaction / get_transaction calls interleaved with answers, stalls, disconnects, indexing and forks; per hash the status sequence must follow added -> fetching -> fetched | not_found(re-add), committed answers must name a stored header whose block contains the transaction, and fetches complete within a bound once faults stop.",
            "DESIGN §3 C16"),
    "C17": ("fault_enumeration", "real threads parked at intercepted write / lock / iteration points: every (A, boundary k, B) pairing plus seeded random 3-4-thread schedules; outcome in the serial orders",
            "For generated sync histories, every storage write boundary and every intent to take the matched-blocks lock k of a protocol handler, timer or RPC call A (SendBlock indexing, proof commit with rollback, filter batches, set_scripts, ...) and each of thirteen operations B - nine RPC calls (five set_scripts variants, get_scripts, get_cells, get_transactions, get_cells_capacity) and four honest peer messages handled by a second handler instance of ANOTHER protocol that shares the store and the peers (SendLastState, next BlockFilters batch, SendBlock of a matched block, SendLastStateProof answering the outstanding request), as the protocol tasks of the real process run concurrently: the history is executed three times identically up to A - B right before A, B right after A, and B started on a second OS thread while A is parked before write k (the simulator waits until B either finishes, i.e. ran inside A, or is seen waiting for a lock A holds, then releases A). The raw keyspace, script set, filter progress and in-memory matched-blocks map of the concurrent execution must equal one of the two serial ones, B's answer must be one of its two serial answers, and both threads must finish. For the reader operations a further execution parks the reader thread inside its query (at one of its iteration hooks) while A and 0 / 25 / 50 further events of the history run, then lets it finish: its answer must be its answer before or after that span (index and tip from one point in time). One case in six uses three threads with a fixed nesting: B is itself parked before one of its own boundaries while a third operation C runs, and the outcome must equal one of the six serial orders of A, B and C. One case in six is a randomized multi-thread run: A, B, C and (half of the time) a fourth reader thread D all park at their start and at a seeded subset of their storage writes, lock intents and query iterations; a seeded scheduler (sim/src/sched.rs) releases one thread at a time, moves on when the released thread parks again, finishes or is seen blocked in the kernel, and reports a deadlock when nobody can be released; the outcome must equal one of the six serial orders of A, B, C.",
            "DESIGN §3 C17, §8.8"),
    "C18": ("exploration", "pool model + by-construction validity verdicts + once-per-peer announcements",
            "Valid transactions and invalidating mutations submitted through send_transaction / estimate_cycles with relay connects, ticks and GetRelayTransactions; success iff expected valid, rejected transactions leave no trace, pool is FIFO with limit 64, and every (peer id, hash) is announced at most once.",
            "DESIGN §3 C18"),
}

NOT_APPLICABLE = {
    "C13": "pure view functions of a static store and a query: no schedule, clock, fault, crash or second party to simulate; the one concurrency clause (capacity and tip from one point in time) is decided under C17 (DESIGN §5)",
    "C14": "pure arithmetic on epochs / compact targets / 256-bit totals: an input-space quantifier with nothing for a scheduler or fault injector to decide; consequences are covered by C05 (honest variable-difficulty histories), C01 (altered difficulties) and C10 (no abort) (DESIGN §5)",
}


def implemented():
    # properties whose scenario + oracle exist (kept in sync by hand while the framework grows)
    try:
        return [l.strip() for l in open("/verif/IMPLEMENTED").read().split() if l.strip()]
    except FileNotFoundError:
        return []


def main():
    impl = implemented()
    checks = []
    na = []
    for pid in ["C%02d" % i for i in range(1, 19)]:
        if pid in NOT_APPLICABLE:
            na.append({"property_id": pid, "reason": NOT_APPLICABLE[pid]})
            continue
        level, technique, text, ref = CLAIMS[pid]
        if pid not in impl:
            na.append({"property_id": pid, "reason": "not claimed yet: the scenario and oracle for this property are still being built (see DESIGN.md for the plan)"})
            continue
        checks.append({
            "property_id": pid,
            "quick_cmd": "./vf check %s --tier quick" % pid,
            "thorough_cmd": "./vf check %s --tier thorough" % pid,
            "evidence_file": "/verif/evidence/%s.json" % pid,
            "replay_cmd_template": "./vf replay {path}",
            "engine": "vsim",
            "level_claimed": {"category": level, "text": text, "design_ref": ref},
            "level_note": TRUST,
            "technique": "deterministic simulation with fault injection: " + technique,
        })
    m = {
        "version": 1,
        "setup_cmd": "./vf setup",
        "hooks": {
            "guard": "cargo feature `verif` of /repo (off by default)",
            "enable": "/verif/sim is a shadow crate that compiles /repo/src by path with its own default feature `verif`; /repo's Cargo.toml is not used for the build",
            "baseline_off_cmd": "cd /repo && cargo test --workspace --no-fail-fast --offline",
            "source_commits": [c.split()[0] for c in HOOK_COMMITS],
            "add_only": True,
        },
        "engines": [{
            "name": "vsim",
            "path": "/verif/sim",
            "serves_properties": [c["property_id"] for c in checks],
            "kind_free_text": "single-process deterministic discrete-event simulator (seeded scheduler, virtual clock, seeded entropy, simulated transport and full nodes, crash / pause hooks) running the real client code",
        }],
        "checks": checks,
        "not_applicable": na,
        "notes": "One seed (VERIF_SEED) decides every run; `./vf replay <file>` re-executes a minimised plan in a fresh process. Genuine defects that are recorded but not repaired are listed in known_findings.json and reported as KNOWN-FINDING lines.",
    }
    json.dump(m, open("/verif/MANIFEST.json", "w"), indent=1)
    print("claimed:", [c["property_id"] for c in checks])


if __name__ == "__main__":
    main()

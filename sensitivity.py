#!/usr/bin/env python3
"""Re-tries every seeded change in /verif/seeded with /verif/seedtest.sh (scratch worktree, /repo untouched)
and writes /verif/SENSITIVITY.md: which check reports a violation that is not a known finding."""
import json, os, re, subprocess, sys

known = json.load(open('/verif/known_findings.json'))
KNOWN = [f['key'] for f in known['findings']]

def is_known(key):
    return any(key == k or key.startswith(k.split(':')[0]) and k.startswith(key.split(':')[0]) and (':' not in k or k in key or key in k) for k in KNOWN)

only = sys.argv[1:]
QUICK = {"C01": 2000, "C02": 1600, "C03": 2000, "C04": 1200, "C05": 700, "C06": 800, "C07": 800, "C08": 640, "C09": 900,
         "C10": 1600, "C11": 2400, "C12": 1600, "C15": 1000, "C16": 1600, "C17": 936, "C18": 2400}

def try_one(d, lane):
    meta = json.load(open('/verif/seeded/%s/meta.json' % d))
    prop = meta['property']
    check = (meta.get('verif_result') or {}).get('caught_by_check') or prop
    runs = str(QUICK.get(check, 800))          # what the quick tier of that check runs
    env = dict(os.environ, LANE=lane)
    out = subprocess.run(['/verif/seedtest.sh', '/verif/seeded/' + d, check, runs, '8'],
                         stdout=subprocess.PIPE, stderr=subprocess.STDOUT, text=True, env=env).stdout
    own = []
    total = 0
    for line in out.splitlines():
        m = re.match(r'^(\d+) (C\d\d/\S+) \[(.*)\]', line)
        if m and not is_known(m.group(2)):
            if m.group(2).startswith(check + '/'):
                own.append('%s ×%s' % (m.group(2), m.group(1)))
            elif check == 'C08':
                # what a crash adds to other properties' monitors counts for C08 (as in `vf`): the
                # crash-free twin of history h has index h*100000
                idx = [int(x) for x in m.group(3).split(',') if x.strip()]
                if idx and all(i % 100000 != 0 for i in idx):
                    own.append('C08/crash_induced:%s ×%s' % (m.group(2), m.group(1)))
        m = re.match(r'^runs (\d+)', line)
        if m:
            total = int(m.group(1))
    if 'PATCH DOES NOT APPLY' in out:
        own = []
        total = -1
    print(d, check, total, own[:3], flush=True)
    return (d, prop, check, total, own)

import threading
todo = [d for d in sorted(os.listdir('/verif/seeded')) if not only or d in only]
rows = []
lock = threading.Lock()
def lane_worker(lane):
    while True:
        with lock:
            if not todo:
                return
            d = todo.pop(0)
        r = try_one(d, lane)
        with lock:
            rows.append(r)
ts = [threading.Thread(target=lane_worker, args=(l,)) for l in ('', '2')]
for t in ts: t.start()
for t in ts: t.join()
# a partial re-run (ids given) keeps the other rows of the existing table
if only and os.path.exists('/verif/SENSITIVITY.md'):
    have = {r[0] for r in rows}
    for line in open('/verif/SENSITIVITY.md'):
        m = re.match(r'^\| (C\d\d\w*) \| (C\d\d) \| (C\d\d) \| (-?\d+) \| (.*) \|$', line.strip())
        if m and m.group(1) not in have:
            res = m.group(5)
            own = [] if 'missed' in res else [x for x in res.replace('caught: ', '').split('; ')]
            rows.append((m.group(1), m.group(2), m.group(3), int(m.group(4)), own))
rows.sort()

with open('/verif/SENSITIVITY.md', 'w') as f:
    f.write('# Seeded property-breaking changes re-tried by /verif/sensitivity.py\n\n')
    f.write('Each row: /verif/seedtest.sh /verif/seeded/<id> <check> <runs of the quick tier of that check> on a scratch worktree of /repo HEAD (VERIF_SEED 1); a change counts as caught when the check reports a violation of its own property that is not a known finding.\n\n')
    f.write('| seeded change | property | check | runs | result |\n|---|---|---|---|---|\n')
    for d, prop, check, total, own in rows:
        f.write('| %s | %s | %s | %d | %s |\n' % (d, prop, check, total, ('caught: ' + '; '.join(own[:4])) if own else '**missed**'))

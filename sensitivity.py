#!/usr/bin/env python3
"""Re-tries every seeded change in /verif/seeded with /verif/seedtest.sh (scratch worktree, /repo untouched)
and writes /verif/SENSITIVITY.md: which check reports a violation that is not a known finding."""
import json, os, re, subprocess, sys

known = json.load(open('/verif/known_findings.json'))
KNOWN = [f['key'] for f in known['findings']]

def is_known(key):
    return any(key == k or key.startswith(k.split(':')[0]) and k.startswith(key.split(':')[0]) and (':' not in k or k in key or key in k) for k in KNOWN)

rows = []
only = sys.argv[1:]
for d in sorted(os.listdir('/verif/seeded')):
    if only and d not in only:
        continue
    meta = json.load(open('/verif/seeded/%s/meta.json' % d))
    prop = meta['property']
    check = (meta.get('verif_result') or {}).get('caught_by_check') or prop
    runs = '1200' if check in ('C16', 'C03', 'C01', 'C09') else '800'
    out = subprocess.run(['/verif/seedtest.sh', '/verif/seeded/' + d, check, runs, '8'],
                         stdout=subprocess.PIPE, stderr=subprocess.STDOUT, text=True).stdout
    own = []
    total = 0
    for line in out.splitlines():
        m = re.match(r'^(\d+) (C\d\d/\S+) \[(.*)\]', line)
        if m and m.group(2).startswith(check + '/') and not is_known(m.group(2)):
            own.append('%s ×%s' % (m.group(2), m.group(1)))
        m = re.match(r'^runs (\d+)', line)
        if m:
            total = int(m.group(1))
    rows.append((d, prop, check, total, own))
    print(d, check, total, own[:3], flush=True)

with open('/verif/SENSITIVITY.md', 'w') as f:
    f.write('# Seeded property-breaking changes re-tried by /verif/sensitivity.py\n\n')
    f.write('Each row: /verif/seedtest.sh /verif/seeded/<id> <check> on a scratch worktree of /repo HEAD; a change counts as caught when the check reports a violation of its own property that is not a known finding.\n\n')
    f.write('| seeded change | property | check | runs | result |\n|---|---|---|---|---|\n')
    for d, prop, check, total, own in rows:
        f.write('| %s | %s | %s | %d | %s |\n' % (d, prop, check, total, ('caught: ' + '; '.join(own[:4])) if own else '**missed**'))

#!/bin/bash
# usage: try_seeded.sh <dir-with-patch.diff> <PROP> [extra vf args]   -- applies the patch to /repo, runs the check, reverts
d=$1; p=$2; shift 2
cd /repo && git apply --check $d/patch.diff || { echo "PATCH DOES NOT APPLY: $d"; exit 3; }
git -C /repo apply $d/patch.diff
cd /verif && ./vf check $p "$@" > /tmp/seeded-$p.out 2>&1; rc=$?
git -C /repo checkout -- .
(cd /verif/sim && cargo build --offline >/dev/null 2>&1)
echo "$p rc=$rc"; grep -E "^VIOLATION|^  key=|^OK|HARNESS" /tmp/seeded-$p.out | head -8

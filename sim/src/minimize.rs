//! Delta debugging over plan entries: keeps a candidate only if the same violation key recurs.

use std::time::{Duration, Instant};

use crate::plan::{Action, Plan, Timed};
use crate::runner;

fn peer_of(a: &Action) -> Option<usize> {
    match a {
        Action::SwitchBranch { peer, .. }
        | Action::Connect { peer }
        | Action::Disconnect { peer }
        | Action::SetLag { peer, .. }
        | Action::Stall { peer, .. }
        | Action::LoseAnswers { peer, .. }
        | Action::RelayOpen { peer }
        | Action::RelayClose { peer }
        | Action::RelayGetTxs { peer }
        | Action::Inject { peer, .. } => Some(*peer),
        _ => None,
    }
}

fn set_peer(a: &mut Action, np: usize) {
    match a {
        Action::SwitchBranch { peer, .. }
        | Action::Connect { peer }
        | Action::Disconnect { peer }
        | Action::SetLag { peer, .. }
        | Action::Stall { peer, .. }
        | Action::LoseAnswers { peer, .. }
        | Action::RelayOpen { peer }
        | Action::RelayClose { peer }
        | Action::RelayGetTxs { peer }
        | Action::Inject { peer, .. } => *peer = np,
        _ => {}
    }
}

fn without_peer(plan: &Plan, p: usize) -> Plan {
    let mut q = plan.clone();
    q.peers.remove(p);
    q.actions = plan
        .actions
        .iter()
        .filter(|t| peer_of(&t.action) != Some(p))
        .cloned()
        .map(|mut t| {
            if let Some(x) = peer_of(&t.action) {
                if x > p {
                    set_peer(&mut t.action, x - 1);
                }
            }
            t
        })
        .collect();
    q
}

pub struct MinResult {
    pub plan: Plan,
    pub executions: u64,
    pub trace_hash: u64,
    pub detail: String,
}

pub fn minimize(plan: &Plan, key: &str, budget: Duration) -> Option<MinResult> {
    let start = Instant::now();
    let mut execs = 0u64;
    let last = std::cell::RefCell::new((0u64, String::new(), 0u64));
    let test = |p: &Plan, execs: &mut u64| -> bool {
        *execs += 1;
        let o = runner::execute(p, false);
        if o.harness_error.is_some() {
            return false;
        }
        match o.violations.iter().find(|v| v.key() == key) {
            Some(v) => {
                *last.borrow_mut() = (o.trace_hash, v.detail.clone(), v.at_time);
                true
            }
            None => false,
        }
    };
    let mut cur = plan.clone();
    if !test(&cur, &mut execs) {
        return None;
    }
    let mut improved = true;
    while improved && start.elapsed() < budget {
        improved = false;
        // 1. drop chunks of actions
        let mut chunk = (cur.actions.len() / 2).max(1);
        loop {
            let mut i = 0;
            while i < cur.actions.len() && start.elapsed() < budget {
                let mut cand = cur.clone();
                let end = (i + chunk).min(cand.actions.len());
                cand.actions.drain(i..end);
                if test(&cand, &mut execs) {
                    cur = cand;
                    improved = true;
                } else {
                    i += chunk;
                }
            }
            if chunk == 1 {
                break;
            }
            chunk = (chunk / 2).max(1);
        }
        // 2. drop peers
        let mut p = 0;
        while cur.peers.len() > 1 && p < cur.peers.len() && start.elapsed() < budget {
            let cand = without_peer(&cur, p);
            if test(&cand, &mut execs) {
                cur = cand;
                improved = true;
            } else {
                p += 1;
            }
        }
        // 3. shorter chain
        for f in [2u64, 4, 8] {
            if start.elapsed() >= budget {
                break;
            }
            let nb = cur.initial_blocks - cur.initial_blocks / f;
            let nb2 = cur.initial_blocks / f;
            for cand_blocks in [nb2.max(1), nb.max(1), cur.initial_blocks.saturating_sub(1).max(1)] {
                if cand_blocks >= cur.initial_blocks {
                    continue;
                }
                let mut cand = cur.clone();
                cand.initial_blocks = cand_blocks;
                if test(&cand, &mut execs) {
                    cur = cand;
                    improved = true;
                    break;
                }
            }
        }
        // 4. simplifications
        let mut simple: Vec<Plan> = Vec::new();
        if cur.trace_logging {
            let mut c = cur.clone();
            c.trace_logging = false;
            simple.push(c);
        }
        for i in 0..cur.peers.len() {
            if cur.peers[i].lag != 0 || cur.peers[i].jitter != 0 {
                let mut c = cur.clone();
                c.peers[i].lag = 0;
                c.peers[i].jitter = 0;
                simple.push(c);
            }
            for m in 0..cur.peers[i].mutations.len() {
                let mut c = cur.clone();
                c.peers[i].mutations.remove(m);
                simple.push(c);
            }
            if cur.peers[i].lie_salt != 0 {
                let mut c = cur.clone();
                c.peers[i].lie_salt = 0;
                simple.push(c);
            }
        }
        if cur.chain.max_txs > 0 {
            let mut c = cur.clone();
            c.chain.max_txs = 0;
            simple.push(c);
        }
        if cur.chain.drift > 0 {
            let mut c = cur.clone();
            c.chain.drift = 0;
            simple.push(c);
        }
        for c in simple {
            if start.elapsed() >= budget {
                break;
            }
            if test(&c, &mut execs) {
                cur = c;
                improved = true;
            }
        }
        // 5. stop the run right after the violation
        let last_time = last.borrow().2;
        if last_time + 1 < cur.max_time {
            let mut c = cur.clone();
            c.max_time = last_time + 1;
            c.actions.retain(|t| t.at <= c.max_time);
            if c != cur && test(&c, &mut execs) {
                cur = c;
                improved = true;
            }
        }
    }
    // final run fixes hash/detail of the result
    if !test(&cur, &mut execs) {
        return None;
    }
    let (trace_hash, detail, _) = last.borrow().clone();
    Some(MinResult {
        plan: cur,
        executions: execs,
        trace_hash,
        detail,
    })
}

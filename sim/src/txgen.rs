//! Transaction generator and pool model for send_transaction / estimate_cycles (C18).
//!
//! Every submission is built from the ground truth so that its verdict is known by
//! construction: a valid transaction spends always-success cells whose creating transaction
//! the client has stored (or that are outputs of a transaction in the pool model), depends on
//! the always-success code cell if the client knows it, and conserves capacity. A mutation
//! breaks exactly one of the rules `verify_tx` checks.

use ckb_types::{
    bytes::Bytes,
    core::{Capacity, TransactionBuilder, TransactionView},
    packed::{self, CellDep, CellInput, CellOutput, OutPoint},
    prelude::*,
};
use serde_json::{json, Value};

use crate::chain::always_success_script;
use crate::entropy::Rng;
use crate::plan::TxSpec;
use crate::sim::Sim;

pub const POOL_LIMIT: usize = 64;

#[derive(Default)]
pub struct C18State {
    /// FIFO model of the pending pool: (hash, transaction, cycles reported at admission)
    pub pool: Vec<(packed::Byte32, TransactionView, Option<u64>)>,
    /// every hash ever admitted / ever rejected
    pub admitted: std::collections::HashSet<packed::Byte32>,
    pub rejected: std::collections::HashSet<packed::Byte32>,
    /// (peer identity, hash) announcements seen
    pub announced: std::collections::HashMap<(u64, packed::Byte32), u32>,
    /// cycles per script group observed in this run
    pub unit_cycles: Option<u64>,
    /// out points already spent by pool members (the generator avoids them for valid txs)
    pub used: std::collections::HashSet<OutPoint>,
    /// dep-group cells created by admitted transactions: (out point, every member is known)
    pub dep_groups: Vec<(OutPoint, bool)>,
}

struct Built {
    tx: TransactionView,
    valid: bool,
    why: String,
    groups: u64,
    /// output 0 is a dep-group cell: are all its members known?
    makes_group: Option<bool>,
}

fn is_always_success(s: &packed::Script) -> bool {
    s.code_hash() == always_success_script(&[]).code_hash()
        && s.hash_type() == always_success_script(&[]).hash_type()
}

fn bogus_out_point(rng: &mut Rng) -> OutPoint {
    let mut h = [0u8; 32];
    rng.fill(&mut h);
    OutPoint::new(h.pack(), rng.below(3) as u32)
}

/// Does the client know the headers the median time at its tip is computed from (the tip and
/// its 36 ancestors, or all of them down to genesis)?
fn median_time_computable(c: &crate::client::Client) -> bool {
    let mut h = c.storage.get_last_state().1.calc_header_hash();
    for _ in 0..37 {
        let known = ckb_traits::HeaderProvider::get_header(&c.storage, &h)
            .or_else(|| c.peers.find_header_in_proved_state(&h));
        match known {
            Some(hd) => {
                if hd.number() == 0 {
                    break;
                }
                h = hd.parent_hash();
            }
            None => return false,
        }
    }
    true
}

fn build(sim: &Sim, st: &C18State, spec: &TxSpec) -> Option<Built> {
    let c = sim.client.as_ref()?;
    let mut rng = Rng::new(spec.seed);
    if spec.mutation == 20 {
        // the user submits a transaction of the pool a second time
        if st.pool.is_empty() {
            return None;
        }
        let inputs_known = |tx: &TransactionView| {
            // (the cells it depends on count too: a dep group may be the output of a pending parent)
            tx.input_pts_iter().chain(tx.cell_deps_iter().map(|d| d.out_point())).all(|op| {
                st.pool.iter().any(|(h, _, _)| h == &op.tx_hash())
                    || c.storage.get_transaction_with_header(&op.tx_hash()).is_some()
            })
        };
        // prefer (half of the time) a member that has lost a pending parent to eviction
        let orphans: Vec<usize> = (0..st.pool.len()).filter(|i| !inputs_known(&st.pool[*i].1)).collect();
        let pick = if !orphans.is_empty() && rng.chance(1, 2) {
            orphans[rng.usize_below(orphans.len())]
        } else {
            rng.usize_below(st.pool.len())
        };
        let (_, tx, _) = &st.pool[pick];
        // still verifiable only if its inputs are still known (a pending parent may have been evicted)
        let known = inputs_known(tx);
        // a timestamp-based since is judged against the headers the client has *now*
        let by_time = tx.inputs().into_iter().any(|i| {
            let s: u64 = i.since().unpack();
            s >> 61 == 0b010 || s >> 61 == 0b110
        });
        let judged = !by_time || median_time_computable(c);
        let why = if !known {
            "resubmission of a pool member whose pending parent was evicted"
        } else if !judged {
            "resubmission of a pool member with a timestamp since, the headers for the median time are not known any more"
        } else {
            "resubmission of a pool member"
        };
        return Some(Built { tx: tx.clone(), valid: known && judged, why: why.into(), groups: 0, makes_group: None });
    }
    let world = &sim.world;
    let dep_known = c.storage.get_transaction_with_header(&world.always_success_dep.out_point().tx_hash()).is_some();

    // candidate inputs the client knows
    let mut cands: Vec<(OutPoint, CellOutput)> = Vec::new();
    for source in [spec.source, 1 - spec.source.min(1)] {
        if !cands.is_empty() {
            break;
        }
        if source == 1 {
            for (_, tx, _) in st.pool.iter() {
                for (i, o) in tx.outputs().into_iter().enumerate() {
                    let op = OutPoint::new(tx.hash(), i as u32);
                    if !st.used.contains(&op) {
                        cands.push((op, o));
                    }
                }
            }
        } else {
            for lc in world.branches[0].live.iter() {
                if st.used.contains(&lc.out_point) {
                    continue;
                }
                if lc.tx_index == 0 && lc.number > 0 {
                    continue; // cellbase outputs: maturity is not modelled
                }
                if c.storage.get_transaction_with_header(&lc.out_point.tx_hash()).is_some() {
                    cands.push((lc.out_point.clone(), lc.output.clone()));
                }
            }
        }
    }
    if cands.is_empty() {
        return None;
    }
    let n_in = (rng.range(1, 2) as usize).min(cands.len());
    let mut inputs: Vec<(OutPoint, CellOutput)> = Vec::new();
    for _ in 0..n_in {
        let i = rng.usize_below(cands.len());
        inputs.push(cands.remove(i));
    }
    let in_cap: u64 = inputs
        .iter()
        .map(|(_, o)| Unpack::<Capacity>::unpack(&o.capacity()).as_u64())
        .sum();
    let mut valid = true;
    let mut why = String::from("valid");
    if !dep_known {
        valid = false;
        why = "the always-success code cell is not known to the client".into();
    }
    for (_, o) in inputs.iter() {
        if !is_always_success(&o.lock()) {
            valid = false;
            why = "an input is locked by a script whose code does not exist".into();
        }
        if let Some(t) = o.type_().to_opt() {
            if !is_always_success(&t) {
                valid = false;
                why = "an input has a type script whose code does not exist".into();
            }
        }
    }
    let fee = 1_000 + rng.below(1_000);
    let min_cell = 200_0000_0000u64; // 200 CKB: far above the occupied capacity of any generated cell
    let n_out = if in_cap < fee + 2 * min_cell { 1 } else { rng.range(1, 2) };
    if in_cap < fee + min_cell {
        return None;
    }
    let each = (in_cap - fee) / n_out;
    let mut outputs = Vec::new();
    let mut datas: Vec<Bytes> = Vec::new();
    for k in 0..n_out {
        let lock = always_success_script(&[0xc1, k as u8, rng.below(4) as u8]);
        outputs.push(
            CellOutput::new_builder()
                .capacity(Capacity::shannons(each).pack())
                .lock(lock)
                .build(),
        );
        let dlen = if rng.chance(1, 3) { rng.range(1, 8) } else { 0 };
        let mut d = vec![0u8; dlen as usize];
        rng.fill(&mut d);
        datas.push(Bytes::from(d));
    }
    let mut cell_deps: Vec<CellDep> = vec![world.always_success_dep.clone()];
    let mut cell_inputs: Vec<CellInput> = inputs.iter().map(|(op, _)| CellInput::new(op.clone(), 0)).collect();
    let mut witnesses: Vec<packed::Bytes> = vec![Bytes::from(vec![rng.below(256) as u8]).pack()];
    let mut version: u32 = 0;
    let tip = c.storage.get_last_state().1.into_view().number();

    // some of the plain submissions create a dep-group cell, or use one instead of the code cell
    let mutation = match (spec.mutation, crate::entropy::mix(&[spec.seed, 0xd9]) % 10) {
        (0, 0) => 15,
        (0, 1) | (0, 2) => 16,
        (13, 3) | (13, 4) => 17,
        (13, 5) => 18,
        (m, _) => m,
    };
    let mut makes_group: Option<bool> = None;
    match mutation {
        0 => {}
        15 => {
            // output 0 becomes a dep group: the code cell, and sometimes a cell nobody knows
            let good = rng.chance(1, 2);
            let mut members = vec![world.always_success_dep.out_point()];
            if !good {
                let at = rng.usize_below(2);
                members.insert(at, bogus_out_point(&mut rng));
            }
            let data: packed::OutPointVec = members.pack();
            datas[0] = data.as_bytes();
            makes_group = Some(good);
        }
        16 => {
            // the code cell is reached through a dep group created by a pending transaction
            let usable: Vec<&(OutPoint, bool)> = st
                .dep_groups
                .iter()
                .filter(|(op, _)| st.pool.iter().any(|(h, _, _)| h == &op.tx_hash()))
                .collect();
            if !usable.is_empty() {
                let (op, good) = usable[rng.usize_below(usable.len())].clone();
                cell_deps = vec![CellDep::new_builder().out_point(op).dep_type(ckb_types::core::DepType::DepGroup.into()).build()];
                if !good && valid {
                    valid = false;
                    why = "the dep group lists a cell the client does not know".into();
                } else if valid {
                    why = "valid (the code cell comes through a dep group)".into();
                }
            }
        }
        1 => {
            // outputs exceed inputs
            let o = outputs[0].clone();
            let cap = Unpack::<Capacity>::unpack(&o.capacity()).as_u64();
            outputs[0] = o.as_builder().capacity(Capacity::shannons(cap + fee + 1 + rng.below(1_000_000)).pack()).build();
            valid = false;
            why = "outputs exceed inputs".into();
        }
        2 => {
            let dup = cell_inputs[0].clone();
            cell_inputs.push(dup);
            valid = false;
            why = "duplicated input".into();
        }
        3 => {
            let i = rng.usize_below(cell_inputs.len());
            cell_inputs[i] = CellInput::new(bogus_out_point(&mut rng), 0);
            valid = false;
            why = "unknown input".into();
        }
        4 => {
            cell_deps[0] = CellDep::new_builder().out_point(bogus_out_point(&mut rng)).build();
            valid = false;
            why = "unknown cell dep".into();
        }
        5 => {
            cell_deps.clear();
            valid = false;
            why = "no cell dep: script code cannot be found".into();
        }
        6 => {
            // absolute block-number since far above the tip
            let since = tip + 1_000 + rng.below(1_000);
            cell_inputs[0] = CellInput::new(inputs[0].0.clone(), since);
            valid = false;
            why = "immature absolute since".into();
        }
        7 => {
            // output below its occupied capacity
            let o = outputs[0].clone();
            outputs[0] = o.as_builder().capacity(Capacity::shannons(1 + rng.below(1_000)).pack()).build();
            valid = false;
            why = "output below its occupied capacity".into();
        }
        8 => {
            // witness garbage: the always-success script ignores witnesses
            let n = rng.range(0, 200) as usize;
            let mut w = vec![0u8; n];
            rng.fill(&mut w);
            witnesses = vec![Bytes::from(w).pack(), Bytes::new().pack()];
        }
        9 => {
            cell_inputs.clear();
            valid = false;
            why = "no inputs".into();
        }
        10 => {
            datas.pop();
            valid = false;
            why = "outputs / outputs_data length mismatch".into();
        }
        11 => {
            version = 1 + rng.below(3) as u32;
            valid = false;
            why = "unsupported transaction version".into();
        }
        12 => {
            // an index beyond the outputs of a known transaction
            let op = OutPoint::new(inputs[0].0.tx_hash(), 1_000 + rng.below(1000) as u32);
            cell_inputs[0] = CellInput::new(op, 0);
            valid = false;
            why = "input index beyond the outputs of a known transaction".into();
        }
        17 => {
            // absolute since by timestamp, long past: it can be judged (and is satisfied) only if
            // the client has the headers the median time is computed from - the tip and its 36
            // ancestors; otherwise the transaction has to be refused, not to abort the call
            let since = 0x4000_0000_0000_0000u64 | (1 + rng.below(1_000));
            cell_inputs[0] = CellInput::new(inputs[0].0.clone(), since);
            let computable = median_time_computable(c);
            if computable {
                if valid {
                    why = "valid (absolute timestamp since in the past, median time computable)".into();
                }
            } else {
                valid = false;
                why = "timestamp since, but the headers for the median time are not known".into();
            }
        }
        18 => {
            // satisfied absolute since by epoch (epoch 0): still valid
            let since = 0x2000_0000_0000_0000u64 | (1u64 << 40);
            cell_inputs[0] = CellInput::new(inputs[0].0.clone(), since);
            why = "valid (absolute epoch since in the past)".into();
        }
        13 => {
            // satisfied absolute since (block number <= tip): still valid
            let since = rng.range(0, tip);
            cell_inputs[0] = CellInput::new(inputs[0].0.clone(), since);
        }
        _ => {
            // duplicated cell dep
            cell_deps.push(world.always_success_dep.clone());
            valid = false;
            why = "duplicated cell dep".into();
        }
    }
    let tx = TransactionBuilder::default()
        .version(version.pack())
        .cell_deps(cell_deps)
        .inputs(cell_inputs)
        .outputs(outputs)
        .outputs_data(datas.iter().map(|d| d.pack()))
        .witnesses(witnesses)
        .build();
    // script groups: distinct lock scripts of the inputs (outputs carry no type script)
    let mut locks: Vec<packed::Script> = Vec::new();
    let mut types: Vec<packed::Script> = Vec::new();
    for (_, o) in inputs.iter() {
        if !locks.contains(&o.lock()) {
            locks.push(o.lock());
        }
        if let Some(t) = o.type_().to_opt() {
            if !types.contains(&t) {
                types.push(t);
            }
        }
    }
    Some(Built {
        tx,
        valid,
        why,
        groups: (locks.len() + types.len()) as u64,
        makes_group,
    })
}

fn tx_json(tx: &TransactionView) -> Value {
    let j: ckb_jsonrpc_types::Transaction = tx.data().into();
    serde_json::to_value(&j).expect("transaction to json")
}

fn parse_u64(v: &Value) -> Option<u64> {
    v.as_str().and_then(|s| u64::from_str_radix(s.trim_start_matches("0x"), 16).ok())
}

pub fn submit(sim: &mut Sim, spec: &TxSpec, send: bool) {
    let mut st = std::mem::take(&mut sim.oracle.c18);
    submit_inner(sim, &mut st, spec, send);
    sim.oracle.c18 = st;
}

fn submit_inner(sim: &mut Sim, st: &mut C18State, spec: &TxSpec, send: bool) {
    let built = match build(sim, st, spec) {
        Some(b) => b,
        None => {
            sim.stat("probe.c18.nothing_to_spend");
            return;
        }
    };
    let hash = built.tx.hash();
    let method = if send { "send_transaction" } else { "estimate_cycles" };
    let r = match crate::user::rpc(sim, method, json!([tx_json(&built.tx)])) {
        Some(r) => r,
        None => return,
    };
    sim.log(format!("{} {:#x} ({}) -> {:?}", method, hash, built.why, r));
    if built.why.contains("dep group") {
        sim.stat("probe.c18.dep_group_used");
    }
    if built.why.contains("median time computable") {
        sim.stat("probe.c18.timestamp_since_judged");
    } else if built.why.contains("median time are not known") {
        sim.stat("probe.c18.timestamp_since_without_the_headers");
    }
    match (&r, built.valid) {
        (Ok(_), false) => {
            sim.violate(
                "C18",
                "unverifiable_transaction_accepted",
                format!("{} accepted {:#x}: {}", method, hash, built.why),
            );
        }
        (Err(e), true) => {
            sim.violate(
                "C18",
                "verifiable_transaction_rejected",
                format!("{} rejected {:#x} (valid by construction): {}", method, hash, e),
            );
        }
        _ => {}
    }
    match &r {
        Ok(v) => {
            sim.stat("probe.c18.accepted");
            let mut cycles = None;
            if send {
                if v.as_str().map(|s| s.to_string()) != Some(format!("{:#x}", hash)) {
                    sim.violate("C18", "wrong_hash_returned", format!("{} for {:#x}", v, hash));
                }
            } else {
                cycles = v.get("cycles").and_then(parse_u64);
                if cycles.is_none() {
                    sim.violate("C18", "no_cycles_reported", format!("{}", v));
                }
            }
            if send {
                // model: insert (re-insert keeps position in a LinkedHashMap::insert? it moves to the back)
                st.pool.retain(|(h, _, _)| h != &hash);
                st.pool.push((hash.clone(), built.tx.clone(), None));
                while st.pool.len() > POOL_LIMIT {
                    st.pool.remove(0);
                }
                st.admitted.insert(hash.clone());
                for i in built.tx.input_pts_iter() {
                    st.used.insert(i);
                }
                if let Some(good) = built.makes_group {
                    // never spent by later submissions
                    let op = OutPoint::new(hash.clone(), 0);
                    st.used.insert(op.clone());
                    st.dep_groups.push((op, good));
                    sim.stat("probe.c18.dep_group_created");
                }
                // pool members are reported as pending with their cycles
                if let Some(Ok(g)) = crate::user::rpc(sim, "get_transaction", json!([crate::user::h256_json(&hash)])) {
                    let status = g.pointer("/tx_status/status").and_then(|s| s.as_str()).unwrap_or("");
                    if status != "pending" {
                        sim.violate("C18", "pool_member_not_reported_pending", format!("{:#x}: {}", hash, g));
                    }
                    cycles = g.get("cycles").and_then(parse_u64);
                    if cycles.is_none() {
                        sim.violate("C18", "no_cycles_reported", format!("{}", g));
                    }
                }
            }
            if let Some(cy) = cycles {
                if built.groups > 0 {
                    if cy == 0 || cy % built.groups != 0 {
                        sim.violate("C18", "cycles_do_not_match_the_scripts_run", format!("{:#x}: {} cycles for {} script groups", hash, cy, built.groups));
                    } else {
                        let unit = cy / built.groups;
                        match st.unit_cycles {
                            None => st.unit_cycles = Some(unit),
                            Some(u) if u != unit => {
                                sim.violate("C18", "cycles_do_not_match_the_scripts_run", format!("{:#x}: {} cycles for {} groups, earlier {} per group", hash, cy, built.groups, u));
                            }
                            _ => {}
                        }
                    }
                }
            }
        }
        Err(_) => {
            sim.stat("probe.c18.rejected");
            if !st.admitted.contains(&hash) {
                st.rejected.insert(hash.clone());
                // a rejected transaction leaves no trace
                if let Some(Ok(g)) = crate::user::rpc(sim, "get_transaction", json!([crate::user::h256_json(&hash)])) {
                    let status = g.pointer("/tx_status/status").and_then(|s| s.as_str()).unwrap_or("");
                    if status != "unknown" {
                        sim.violate("C18", "rejected_transaction_stored", format!("{:#x}: {}", hash, g));
                    }
                }
            }
        }
    }
    check_pool(sim, st);
}

/// The real pool equals the FIFO model (membership and eviction order).
pub fn check_pool(sim: &mut Sim, st: &mut C18State) {
    let c = match sim.client.as_ref() {
        Some(c) => c,
        None => return,
    };
    let mut findings: Vec<(&str, String)> = Vec::new();
    {
        let pool = c.pending_txs.read().unwrap_or_else(|e| e.into_inner());
        for (h, _, _) in st.pool.iter() {
            if pool.get(h).is_none() {
                findings.push(("pool_member_lost", format!("{:#x} is one of the newest {} admitted transactions and is not in the pool", h, POOL_LIMIT)));
            }
        }
        let members: std::collections::HashSet<&packed::Byte32> = st.pool.iter().map(|(h, _, _)| h).collect();
        for h in st.admitted.iter() {
            if !members.contains(h) && pool.get(h).is_some() {
                findings.push(("pool_exceeds_its_limit", format!("{:#x} should have been evicted (limit {})", h, POOL_LIMIT)));
            }
        }
        for h in st.rejected.iter() {
            if pool.get(h).is_some() {
                findings.push(("rejected_transaction_stored", format!("{:#x} is in the pool", h)));
            }
        }
    }
    if st.pool.len() == POOL_LIMIT {
        sim.stat("probe.c18.pool_full");
    }
    for (clause, detail) in findings {
        sim.violate("C18", clause, detail);
    }
}

/// A relay announcement arrived at peer `p`.
pub fn on_announce(sim: &mut Sim, p: usize, hashes: &[packed::Byte32]) {
    let mut st = std::mem::take(&mut sim.oracle.c18);
    let ident = sim.plan.peers[p].identity;
    for h in hashes {
        sim.stat("probe.c18.announced");
        let n = st.announced.entry((ident, h.clone())).or_insert(0);
        *n += 1;
        if *n > 1 {
            sim.stat("probe.c18.reannounce_seen");
            sim.violate("C18", "announced_twice_to_one_peer", format!("{:#x} announced {} times to peer id {}", h, *n, ident));
        }
        if !st.admitted.contains(h) {
            sim.violate("C18", "unadmitted_transaction_relayed", format!("{:#x} announced to peer id {}", h, ident));
        }
    }
    sim.oracle.c18 = st;
}

/// The client answered GetRelayTransactions.
pub fn on_relay_transactions(sim: &mut Sim, p: usize, txs: Vec<(packed::Transaction, u64)>) {
    let st = std::mem::take(&mut sim.oracle.c18);
    let ident = sim.plan.peers[p].identity;
    for (tx, cycles) in txs {
        let h = tx.calc_tx_hash();
        sim.stat("probe.c18.relayed_body");
        if !st.admitted.contains(&h) {
            sim.violate("C18", "unadmitted_transaction_relayed", format!("{:#x} sent to peer id {}", h, ident));
        }
        if cycles == 0 {
            sim.violate("C18", "cycles_do_not_match_the_scripts_run", format!("{:#x} relayed with 0 cycles", h));
        }
    }
    sim.oracle.c18 = st;
}


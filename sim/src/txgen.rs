//! Transaction generator for send_transaction / estimate_cycles (C18).

use crate::plan::TxSpec;
use crate::sim::Sim;

pub fn submit(_sim: &mut Sim, _spec: &TxSpec, _send: bool) {}

//! The user: JSON-RPC calls issued through the real RPC delegates, and the relay-protocol
//! side of a full node (C18).

use ckb_network::{bytes::Bytes, PeerIndex};
use ckb_types::{packed, prelude::*};
use serde_json::{json, Value};

use crate::client::Proto;
use crate::plan::{HashRef, SetCmd, UserOp};
use crate::refidx::{resolve_script, script_json, ScriptKey};
use crate::sim::Sim;

pub fn h256_json(h: &packed::Byte32) -> Value {
    Value::String(format!("{:#x}", h))
}

pub fn resolve_hash(sim: &Sim, r: &HashRef) -> packed::Byte32 {
    match r {
        HashRef::Block { branch, number } => {
            let b = (*branch).min(sim.world.branches.len() - 1);
            let n = (*number).min(sim.world.tip_number(b));
            sim.world.block(b, n).hash()
        }
        HashRef::Tx { branch, number, k } => {
            let b = (*branch).min(sim.world.branches.len() - 1);
            let n = (*number).min(sim.world.tip_number(b));
            // walk down from n looking for the k-th non-cellbase transaction
            let mut left = *k;
            let mut fallback = None;
            for num in (0..=n).rev() {
                let blk = &sim.world.block(b, num).view;
                for tx in blk.transactions().into_iter() {
                    if fallback.is_none() {
                        fallback = Some(tx.hash());
                    }
                    if !tx.is_cellbase() {
                        if left == 0 {
                            return tx.hash();
                        }
                        left -= 1;
                    }
                }
            }
            fallback.expect("genesis has a transaction")
        }
        HashRef::Bogus(k) => {
            let mut b = [0u8; 32];
            let mut x = *k ^ 0xb09u64;
            for c in b.chunks_mut(8) {
                c.copy_from_slice(&crate::entropy::splitmix(&mut x).to_le_bytes());
            }
            b.pack()
        }
    }
}

/// Runs one RPC; an unwinding RPC ends the run through `on_unwind`.
pub fn rpc(sim: &mut Sim, method: &str, params: Value) -> Option<Result<Value, Value>> {
    let c = sim.client.as_mut()?;
    match c.rpc(method, params) {
        Ok(r) => {
            sim.flush(None);
            Some(r)
        }
        Err(u) => {
            sim.oracle.unwind_ctx = Some(format!("rpc {}", method));
            sim.handle_unwind("rpc", None, u);
            None
        }
    }
}

pub fn execute(sim: &mut Sim, op: &UserOp) {
    if sim.client.is_none() {
        return;
    }
    sim.stat(&format!("user.{}", crate::sim::user_op_name(op)));
    match op {
        UserOp::SetScripts { cmd, scripts } => {
            let list: Vec<(ScriptKey, u64)> = scripts
                .iter()
                .map(|(r, start)| {
                    let (s, is_type) = resolve_script(&sim.world, r);
                    (ScriptKey::new(&s, is_type), *start)
                })
                .collect();
            let arr: Vec<Value> = list
                .iter()
                .map(|(k, start)| {
                    json!({
                        "script": script_json(&k.script()),
                        "script_type": if k.is_type { "type" } else { "lock" },
                        "block_number": format!("{:#x}", start),
                    })
                })
                .collect();
            let params = match cmd {
                SetCmd::Default => json!([arr]),
                SetCmd::All => json!([arr, "all"]),
                SetCmd::Partial => json!([arr, "partial"]),
                SetCmd::Delete => json!([arr, "delete"]),
            };
            let mut o = std::mem::take(&mut sim.oracle);
            o.refresh_script_progress(sim);
            sim.oracle = o;
            let pending_start = sim
                .client
                .as_ref()
                .and_then(|c| c.storage.get_earliest_matched_blocks().map(|(s, _, _)| s));
            let mf_before = sim
                .client
                .as_ref()
                .map(|c| c.storage.get_min_filtered_block_number())
                .unwrap_or(0);
            let r = rpc(sim, "set_scripts", params);
            if let (Some(Ok(_)), Some(c)) = (r.as_ref(), sim.client.as_ref()) {
                let mf_after = c.storage.get_min_filtered_block_number();
                let genesis = !matches!(cmd, SetCmd::Delete) && list.iter().any(|(_, s)| *s == 0);
                if mf_after < mf_before || genesis {
                    sim.oracle.rewinds.push((mf_before, mf_after.min(mf_before), genesis));
                }
            }
            sim.oracle.c06.progress.clear();
            if let Some(Ok(_)) = r {
                let mut o = std::mem::take(&mut sim.oracle);
                o.model_set_scripts(cmd, &list, pending_start);
                crate::oracle3::c09_after_set_scripts(&mut o, sim, cmd, &list);
                sim.oracle = o;
            } else if let Some(Err(e)) = r {
                sim.violate("C09", "set_scripts_rejected", format!("{}", e));
            }
        }
        UserOp::GetScripts => {
            let _ = rpc(sim, "get_scripts", json!([]));
        }
        UserOp::Audit => {
            let mut o = std::mem::take(&mut sim.oracle);
            o.refresh_script_progress(sim);
            o.audit(sim, "user");
            sim.oracle = o;
        }
        UserOp::FetchHeader(h) => {
            let hash = resolve_hash(sim, h);
            let r = rpc(sim, "fetch_header", json!([h256_json(&hash)]));
            let mut o = std::mem::take(&mut sim.oracle);
            crate::oracle3::c16_on_fetch_header(&mut o, sim, &hash, r);
            sim.oracle = o;
        }
        UserOp::FetchTransaction(h) => {
            let hash = resolve_hash(sim, h);
            let r = rpc(sim, "fetch_transaction", json!([h256_json(&hash)]));
            let mut o = std::mem::take(&mut sim.oracle);
            crate::oracle3::c16_on_fetch_tx(&mut o, sim, &hash, r);
            sim.oracle = o;
        }
        UserOp::GetTransaction(h) => {
            let hash = resolve_hash(sim, h);
            let r = rpc(sim, "get_transaction", json!([h256_json(&hash)]));
            let mut o = std::mem::take(&mut sim.oracle);
            crate::oracle3::c16_on_get_tx(&mut o, sim, &hash, r);
            sim.oracle = o;
        }
        UserOp::GetHeader(h) => {
            let hash = resolve_hash(sim, h);
            let r = rpc(sim, "get_header", json!([h256_json(&hash)]));
            let mut o = std::mem::take(&mut sim.oracle);
            crate::oracle3::c02_on_get_header(&mut o, sim, &hash, r);
            sim.oracle = o;
        }
        UserOp::GetTipHeader => {
            let _ = rpc(sim, "get_tip_header", json!([]));
        }
        UserOp::SendTransaction(spec) => {
            crate::txgen::submit(sim, spec, true);
        }
        UserOp::EstimateCycles(spec) => {
            crate::txgen::submit(sim, spec, false);
        }
    }
}

// ---------------------------------------------------------------------------- relay (C18)

pub fn relay_open(sim: &mut Sim, peer: usize) {
    if sim.client.is_none() || peer >= sim.peers.len() {
        return;
    }
    let session = match sim.peers[peer].session {
        Some(s) => s,
        None => return,
    };
    if sim.peers[peer].relay_open {
        return;
    }
    sim.peers[peer].relay_open = true;
    sim.stat("relay.open");
    // both relay handlers see the session; each decides by the hard-fork switch
    for proto in [Proto::RelayV2, Proto::RelayV3] {
        let now = sim.now;
        let r = sim
            .client
            .as_mut()
            .unwrap()
            .connected(proto, PeerIndex::new(session), now);
        if let Err(u) = r {
            let mut o = std::mem::take(&mut sim.oracle);
            o.on_unwind(sim, "connected", Some(proto), &u);
            sim.oracle = o;
            sim.stop = true;
            return;
        }
        sim.flush(Some(session));
    }
}

pub fn relay_close(sim: &mut Sim, peer: usize) {
    if sim.client.is_none() || peer >= sim.peers.len() {
        return;
    }
    let session = match sim.peers[peer].session {
        Some(s) => s,
        None => return,
    };
    if !sim.peers[peer].relay_open {
        return;
    }
    sim.peers[peer].relay_open = false;
    sim.stat("relay.close");
    for proto in [Proto::RelayV2, Proto::RelayV3] {
        let now = sim.now;
        let r = sim
            .client
            .as_mut()
            .unwrap()
            .disconnected(proto, PeerIndex::new(session), now);
        if let Err(u) = r {
            let mut o = std::mem::take(&mut sim.oracle);
            o.on_unwind(sim, "disconnected", Some(proto), &u);
            sim.oracle = o;
            sim.stop = true;
            return;
        }
        sim.flush(Some(session));
    }
}

/// The relay peer asks for every transaction announced to it so far.
pub fn relay_get_txs(sim: &mut Sim, peer: usize) {
    if sim.client.is_none() || peer >= sim.peers.len() {
        return;
    }
    let session = match sim.peers[peer].session {
        Some(s) => s,
        None => return,
    };
    if !sim.peers[peer].relay_open || sim.peers[peer].relay_announced.is_empty() {
        return;
    }
    let hashes = sim.peers[peer].relay_announced.clone();
    let content = packed::GetRelayTransactions::new_builder()
        .tx_hashes(hashes.pack())
        .build();
    let msg = packed::RelayMessage::new_builder().set(content).build();
    let tag = crate::sim::Tag::honest(crate::sim::Kind::Relay);
    let proto = sim.relay_proto();
    sim.peer_send_raw(peer, session, proto, msg.as_bytes(), tag);
}

pub fn relay_peer_handle(sim: &mut Sim, p: usize, _session: usize, _proto: Proto, data: Bytes) {
    if let Ok(m) = packed::RelayMessageReader::from_compatible_slice(&data) {
        match m.to_enum() {
            packed::RelayMessageUnionReader::RelayTransactionHashes(r) => {
                let hashes: Vec<packed::Byte32> = r.tx_hashes().iter().map(|h| h.to_entity()).collect();
                for h in hashes.iter() {
                    sim.peers[p].relay_announced.push(h.clone());
                }
                crate::txgen::on_announce(sim, p, &hashes);
            }
            packed::RelayMessageUnionReader::RelayTransactions(r) => {
                let txs: Vec<(packed::Transaction, u64)> = r
                    .transactions()
                    .iter()
                    .map(|t| (t.transaction().to_entity(), t.cycles().unpack()))
                    .collect();
                crate::txgen::on_relay_transactions(sim, p, txs);
            }
            _ => {}
        }
    }
}

//! Oracles driven by user operations (C09 step invariant, C16 fetch automaton, C02 get_header).

use ckb_types::packed;
use ckb_types::prelude::{Entity, Reader};
use serde_json::Value;

use crate::oracle::Checker;
use crate::plan::SetCmd;
use crate::refidx::ScriptKey;
use crate::sim::Sim;

pub fn c09_after_set_scripts(ck: &mut Checker, sim: &mut Sim, cmd: &SetCmd, _list: &[(ScriptKey, u64)]) {
    if sim.client.is_none() {
        return;
    }
    if ck.snap.min_filtered > 0 || ck.snap.max_script_progress > 0 {
        sim.stat("probe.c09.set_scripts_during_sync");
    }
    let c = sim.client.as_ref().unwrap();
    // (1) get_scripts equals the README model right away
    let got: std::collections::BTreeSet<(ScriptKey, u64)> = c
        .storage
        .get_filter_scripts()
        .into_iter()
        .map(|ss| {
            (
                ScriptKey::new(&ss.script, matches!(ss.script_type, crate::storage::ScriptType::Type)),
                ss.block_number,
            )
        })
        .collect();
    let model: std::collections::BTreeSet<ScriptKey> =
        ck.registered().into_iter().map(|(k, _)| k).collect();
    let got_keys: std::collections::BTreeSet<ScriptKey> = got.iter().map(|(k, _)| k.clone()).collect();
    let mut findings: Vec<(String, String)> = Vec::new();
    if model != got_keys {
        findings.push((
            "script_set_differs_from_readme_model".into(),
            format!(
                "after set_scripts({:?}): get_scripts has {:?}, documented semantics give {:?}",
                cmd,
                got_keys.iter().map(|k| k.short()).collect::<Vec<_>>(),
                model.iter().map(|k| k.short()).collect::<Vec<_>>()
            ),
        ));
    }
    // (2) pending matched blocks are discarded ...
    let pending = c.storage.get_earliest_matched_blocks().is_some()
        || c.peers.matched_blocks().try_read().map(|m| !m.is_empty()).unwrap_or(true);
    let noop = matches!(cmd, SetCmd::Partial | SetCmd::Delete) && _list.is_empty();
    if pending && !noop {
        findings.push((
            "pending_matched_blocks_not_discarded".into(),
            format!("after set_scripts({:?}) a matched-blocks record or in-memory entry is still pending", cmd),
        ));
    }
    // (3) ... and filter sync is rewound far enough for every script that is kept
    let mf = c.storage.get_min_filtered_block_number();
    let lagging: Vec<(String, u64)> = got
        .iter()
        .filter(|(_, n)| *n < mf)
        .map(|(k, n)| (k.short(), *n))
        .collect();
    if !lagging.is_empty() && !noop {
        findings.push((
            "set_scripts_discards_pending_blocks_without_rewinding".into(),
            format!(
                "after set_scripts({:?}) MIN_FILTERED_NUMBER is {} but {:?} are recorded below it and no matched-blocks record is pending any more: the blocks in between are never examined for them",
                cmd, mf, lagging
            ),
        ));
    }
    // (4) a no-op command (empty partial / delete list) must not desynchronise the in-memory
    // matched-blocks map from the stored record
    if noop {
        let stored = c.storage.get_earliest_matched_blocks().is_some();
        let mem_empty = c.peers.matched_blocks().try_read().map(|m| m.is_empty()).unwrap_or(false);
        if stored && mem_empty {
            findings.push((
                "empty_set_scripts_clears_memory_but_keeps_the_stored_record".into(),
                format!(
                    "set_scripts({:?}, []) returned early in the store but cleared the in-memory matched blocks: the next filter batch without a match raises every script's block number past the still pending record",
                    cmd
                ),
            ));
        }
    }
    for (clause, detail) in findings {
        let root = clause == "set_scripts_discards_pending_blocks_without_rewinding"
            || clause == "empty_set_scripts_clears_memory_but_keeps_the_stored_record";
        sim.violate("C09", &clause, detail);
        if root {
            sim.taint = Some(format!("C09/{}", clause));
        }
    }
}
fn c16_step(
    ck: &mut Checker,
    sim: &mut Sim,
    is_tx: bool,
    h: &packed::Byte32,
    r: Option<Result<Value, Value>>,
) {
    use crate::oracle2::FetchSt;
    use ckb_types::prelude::*;
    let v = match r {
        Some(Ok(v)) => v,
        Some(Err(e)) => {
            sim.violate("C16", "fetch_rpc_error", format!("{}", e));
            return;
        }
        None => return,
    };
    let what = if is_tx { "fetch_transaction" } else { "fetch_header" };
    let num = |x: &Value| -> u64 {
        x.as_str()
            .and_then(|s| u64::from_str_radix(s.trim_start_matches("0x"), 16).ok())
            .unwrap_or(0)
    };
    let now_st = match v["status"].as_str().unwrap_or("") {
        "added" => FetchSt::Added(num(&v["timestamp"])),
        "fetching" => FetchSt::Fetching(num(&v["first_sent"])),
        "fetched" => FetchSt::Fetched,
        "not_found" => FetchSt::NotFound,
        other => {
            sim.violate("C16", "unknown_status", format!("{} -> {}", what, other));
            return;
        }
    };
    if is_tx && now_st == FetchSt::Fetched {
        let places: Vec<u64> = sim
            .world
            .tx_locs
            .get(h)
            .map(|l| l.iter().map(|(id, _)| sim.world.blocks[*id].number()).collect())
            .unwrap_or_default();
        let bh = v["data"]["tx_status"]["block_hash"].as_str().unwrap_or("").to_string();
        let named = sim.world.blocks.iter().find(|b| format!("{:#x}", b.hash()) == bh).map(|b| b.number());
        sim.log(format!("{} {:#x} -> Fetched, in block #{:?} {} (really in blocks numbered {:?})", what, h, named, bh, places));
    } else {
        sim.log(format!("{} {:#x} -> {:?}", what, h, now_st));
    }
    let key = (is_tx, h.as_slice().to_vec());
    let inc = sim.incarnation;
    let tip_number = sim
        .client
        .as_ref()
        .map(|c| Unpack::<u64>::unpack(&c.storage.get_last_state().1.raw().number()))
        .unwrap_or(0);
    let prev = ck.c16.st.get(&key).cloned();
    let mut findings: Vec<(&str, String)> = Vec::new();
    // where is it really?
    // with nobody connected: the branch the plan calls the main one
    let planned_main = sim
        .plan
        .flags
        .iter()
        .find_map(|f| f.strip_prefix("main=").and_then(|v| v.parse::<usize>().ok()))
        .filter(|b| *b < sim.world.branches.len())
        .unwrap_or(0);
    let main = sim
        .best_connected_view()
        .map(|v| v.branch)
        .unwrap_or(planned_main);
    let real_number: Option<u64> = if is_tx {
        sim.world.tx_locs.get(h).and_then(|locs| {
            locs.iter().find_map(|(id, _)| {
                let n = sim.world.blocks[*id].number();
                if sim.world.branches[main].ids.get(n as usize) == Some(id) {
                    Some(n)
                } else {
                    None
                }
            })
        })
    } else {
        sim.world
            .by_hash
            .get(h)
            .map(|id| (*id, sim.world.blocks[*id].number()))
            .and_then(|(id, n)| {
                if sim.world.branches[main].ids.get(n as usize) == Some(&id) {
                    Some(n)
                } else {
                    None
                }
            })
    };
    if let Some((p, pinc, asked_tip)) = prev.clone() {
        if pinc == inc {
            match (&p, &now_st) {
                (FetchSt::Added(a), FetchSt::Added(b)) if a != b => findings.push((
                    "added_timestamp_changed",
                    format!("{} {:#x}: added {} -> added {}", what, h, a, b),
                )),
                (FetchSt::Fetching(a), FetchSt::Fetching(b)) if a != b => findings.push((
                    "first_sent_changed",
                    format!("{} {:#x}: fetching {} -> fetching {}", what, h, a, b),
                )),
                (FetchSt::Fetching(_), FetchSt::Added(_)) => findings.push((
                    "fetching_went_back_to_added",
                    format!("{} {:#x}", what, h),
                )),
                (FetchSt::Fetched, FetchSt::Added(_))
                | (FetchSt::Fetched, FetchSt::Fetching(_))
                | (FetchSt::Fetched, FetchSt::NotFound) => {
                    // a header / transaction that was served is gone again
                    if ck.c04.unnoticed.is_empty() && sim.stats.get("probe.c04.branch_switch").is_none() {
                        findings.push((
                            "fetched_item_disappeared",
                            format!("{} {:#x}: fetched -> {:?}", what, h, now_st),
                        ));
                    }
                }
                _ => {}
            }
            if now_st == FetchSt::NotFound {
                // only legitimate if an honest server reports it missing: not on the main
                // chain below the tip the request was made for
                if let Some(n) = real_number {
                    if n < asked_tip {
                        findings.push((
                            "not_found_for_an_item_of_the_proven_chain",
                            format!("{} {:#x} is in block #{} (tip was #{} when it was first asked)", what, h, n, asked_tip),
                        ));
                    }
                }
            }
        }
    }
    if now_st == FetchSt::Fetched {
        sim.stat("probe.c16.fetched");
        // truthfulness
        if is_tx {
            let bh = v["data"]["tx_status"]["block_hash"].as_str().unwrap_or("");
            let status = v["data"]["tx_status"]["status"].as_str().unwrap_or("");
            if status == "committed" {
                let ok = sim
                    .world
                    .tx_locs
                    .get(h)
                    .map(|locs| {
                        locs.iter()
                            .any(|(id, _)| format!("{:#x}", sim.world.blocks[*id].hash()) == bh)
                    })
                    .unwrap_or(false);
                if !ok {
                    findings.push(c16_pairing_clause(ck, sim, h, bh, "fetch_transaction"));
                }
            }
        } else if !sim.world.by_hash.contains_key(h) {
            findings.push((
                "fetched_header_is_not_a_real_block",
                format!("fetch_header {:#x}", h),
            ));
        }
    }
    let asked_tip = match prev {
        Some((_, pinc, t)) if pinc == inc => t,
        _ => tip_number,
    };
    ck.c16.st.insert(key, (now_st, inc, asked_tip));
    for (clause, detail) in findings {
        sim.violate("C16", clause, detail);
    }
}

pub fn c16_on_fetch_header(ck: &mut Checker, sim: &mut Sim, h: &packed::Byte32, r: Option<Result<Value, Value>>) {
    c16_step(ck, sim, false, h, r);
}
pub fn c16_on_fetch_tx(ck: &mut Checker, sim: &mut Sim, h: &packed::Byte32, r: Option<Result<Value, Value>>) {
    c16_step(ck, sim, true, h, r);
}
/// A wrong (transaction, block) pair: the recorded finding is about entries of an abandoned
/// branch that a rollback keeps; a transaction whose place on the client's present chain was
/// named by a proven answer the client consumed since is another matter.
fn c16_pairing_clause(ck: &mut Checker, sim: &Sim, h: &packed::Byte32, bh: &str, method: &str) -> (&'static str, String) {
    // abandoned blocks indexed after the switch (recorded C04 findings) can undo the answer's work
    let c04_reported = sim.violations.iter().any(|v| {
        v.property == "C04" && !v.clause.starts_with("fork_unnoticed") && !v.clause.starts_with("fork_switch_without_rollback")
    });
    match crate::oracle2::c16_proven_block(ck, sim, h) {
        Some((proven, n)) if proven != bh && !c04_reported => (
            "proven_fetch_answer_left_the_transaction_paired_with_another_block",
            format!("{} {:#x} reports block {} although the consumed transactions proof named block #{} {} of the present chain", method, h, bh, n, proven),
        ),
        _ => {
            let places: Vec<u64> = sim
                .world
                .tx_locs
                .get(h)
                .map(|l| l.iter().map(|(id, _)| sim.world.blocks[*id].number()).collect())
                .unwrap_or_default();
            (
                "committed_transaction_paired_with_a_block_that_does_not_contain_it",
                format!("{} {:#x} reports block {} (the transaction is in blocks numbered {:?})", method, h, bh, places),
            )
        }
    }
}

pub fn c16_on_get_tx(ck: &mut Checker, sim: &mut Sim, h: &packed::Byte32, r: Option<Result<Value, Value>>) {
    // get_transaction: committed + block hash must be truthful
    if let Some(Ok(v)) = r {
        if v["tx_status"]["status"].as_str() == Some("committed") {
            let bh = v["tx_status"]["block_hash"].as_str().unwrap_or("").to_string();
            let ok = sim
                .world
                .tx_locs
                .get(h)
                .map(|locs| locs.iter().any(|(id, _)| format!("{:#x}", sim.world.blocks[*id].hash()) == bh))
                .unwrap_or(false);
            sim.stat("probe.c16.get_transaction_committed");
            if !ok {
                let (clause, detail) = c16_pairing_clause(ck, sim, h, &bh, "get_transaction");
                sim.violate("C16", clause, detail);
            }
        }
    }
}
pub fn c02_on_get_header(_ck: &mut Checker, _sim: &mut Sim, _h: &packed::Byte32, _r: Option<Result<Value, Value>>) {}

/// State of the filter sync as seen right before a BlockFilters message is handled.
#[derive(Default)]
pub struct C09FiltersState {
    /// (start number of the message, filtered number, earliest stored record (start, count),
    /// block number of every registered script)
    pub before: Option<(u64, u64, Option<(u64, u64)>, Vec<(Vec<u8>, u64)>)>,
}

fn script_numbers(c: &crate::client::Client) -> Vec<(Vec<u8>, u64)> {
    let mut v: Vec<(Vec<u8>, u64)> = c
        .storage
        .get_filter_scripts()
        .into_iter()
        .map(|s| {
            let mut key = s.script.as_slice().to_vec();
            key.push(matches!(s.script_type, crate::storage::ScriptType::Lock) as u8);
            (key, s.block_number)
        })
        .collect();
    v.sort();
    v
}

pub fn c09_filters_before(ck: &mut Checker, sim: &mut Sim, proto: crate::client::Proto, data: &ckb_network::bytes::Bytes) {
    ck.c09f.before = None;
    if proto != crate::client::Proto::Filter {
        return;
    }
    let c = match sim.client.as_ref() {
        Some(c) => c,
        None => return,
    };
    if let Ok(m) = packed::BlockFilterMessageReader::from_slice(data) {
        if let packed::BlockFilterMessageUnionReader::BlockFilters(r) = m.to_enum() {
            let start: u64 = ckb_types::prelude::Unpack::unpack(&r.start_number());
            let rec = c.storage.get_earliest_matched_blocks().map(|(s, n, _)| (s, n));
            ck.c09f.before = Some((start, c.storage.get_min_filtered_block_number(), rec, script_numbers(c)));
        }
    }
}

/// A BlockFilters message that does not continue at the filtered number (a late or duplicated
/// answer) carries nothing the client checks: it must not raise a script's block number over the
/// blocks of a matched-blocks record that is still waiting to be downloaded and indexed.
pub fn c09_filters_after(ck: &mut Checker, sim: &mut Sim) {
    let (start, mf, rec, numbers) = match ck.c09f.before.take() {
        Some(b) => b,
        None => return,
    };
    let (rec_start, _) = match rec {
        Some(r) => r,
        None => return,
    };
    if start == mf + 1 {
        return;
    }
    let c = match sim.client.as_ref() {
        Some(c) => c,
        None => return,
    };
    let still = c.storage.get_earliest_matched_blocks().map(|(s, _, _)| s) == Some(rec_start);
    if !still {
        return;
    }
    let after = script_numbers(c);
    let raised: Vec<(u64, u64)> = numbers
        .iter()
        .filter_map(|(k, n)| after.iter().find(|(k2, _)| k2 == k).map(|(_, n2)| (*n, *n2)))
        .filter(|(n, n2)| n2 > n && *n2 >= rec_start && *n < rec_start)
        .collect();
    if !raised.is_empty() {
        sim.violate(
            "C09",
            "script_raised_over_a_pending_record_by_a_filters_message_that_does_not_continue",
            format!(
                "BlockFilters starting at {} while the filtered number is {} (not a continuation) raised script block numbers {:?} although the matched-blocks record starting at {} is still pending: its blocks are reported as examined but were never indexed",
                start, mf, raised, rec_start
            ),
        );
    }
}

//! Oracles driven by user operations (C09 step invariant, C16 fetch automaton, C02 get_header).

use ckb_types::packed;
use serde_json::Value;

use crate::oracle::Checker;
use crate::plan::SetCmd;
use crate::refidx::ScriptKey;
use crate::sim::Sim;

pub fn c09_after_set_scripts(ck: &mut Checker, sim: &mut Sim, cmd: &SetCmd, _list: &[(ScriptKey, u64)]) {
    if sim.client.is_none() {
        return;
    }
    if ck.snap.min_filtered > 0 || ck.snap.max_script_progress > 0 {
        sim.stat("probe.c09.set_scripts_during_sync");
    }
    let c = sim.client.as_ref().unwrap();
    // (1) get_scripts equals the README model right away
    let got: std::collections::BTreeSet<(ScriptKey, u64)> = c
        .storage
        .get_filter_scripts()
        .into_iter()
        .map(|ss| {
            (
                ScriptKey::new(&ss.script, matches!(ss.script_type, crate::storage::ScriptType::Type)),
                ss.block_number,
            )
        })
        .collect();
    let model: std::collections::BTreeSet<ScriptKey> =
        ck.registered().into_iter().map(|(k, _)| k).collect();
    let got_keys: std::collections::BTreeSet<ScriptKey> = got.iter().map(|(k, _)| k.clone()).collect();
    let mut findings: Vec<(String, String)> = Vec::new();
    if model != got_keys {
        findings.push((
            "script_set_differs_from_readme_model".into(),
            format!(
                "after set_scripts({:?}): get_scripts has {:?}, documented semantics give {:?}",
                cmd,
                got_keys.iter().map(|k| k.short()).collect::<Vec<_>>(),
                model.iter().map(|k| k.short()).collect::<Vec<_>>()
            ),
        ));
    }
    // (2) pending matched blocks are discarded ...
    let pending = c.storage.get_earliest_matched_blocks().is_some()
        || c.peers.matched_blocks().try_read().map(|m| !m.is_empty()).unwrap_or(true);
    let noop = matches!(cmd, SetCmd::Partial | SetCmd::Delete) && _list.is_empty();
    if pending && !noop {
        findings.push((
            "pending_matched_blocks_not_discarded".into(),
            format!("after set_scripts({:?}) a matched-blocks record or in-memory entry is still pending", cmd),
        ));
    }
    // (3) ... and filter sync is rewound far enough for every script that is kept
    let mf = c.storage.get_min_filtered_block_number();
    let lagging: Vec<(String, u64)> = got
        .iter()
        .filter(|(_, n)| *n < mf)
        .map(|(k, n)| (k.short(), *n))
        .collect();
    if !lagging.is_empty() && !noop {
        findings.push((
            "set_scripts_discards_pending_blocks_without_rewinding".into(),
            format!(
                "after set_scripts({:?}) MIN_FILTERED_NUMBER is {} but {:?} are recorded below it and no matched-blocks record is pending any more: the blocks in between are never examined for them",
                cmd, mf, lagging
            ),
        ));
    }
    // (4) a no-op command (empty partial / delete list) must not desynchronise the in-memory
    // matched-blocks map from the stored record
    if noop {
        let stored = c.storage.get_earliest_matched_blocks().is_some();
        let mem_empty = c.peers.matched_blocks().try_read().map(|m| m.is_empty()).unwrap_or(false);
        if stored && mem_empty {
            findings.push((
                "empty_set_scripts_clears_memory_but_keeps_the_stored_record".into(),
                format!(
                    "set_scripts({:?}, []) returned early in the store but cleared the in-memory matched blocks: the next filter batch without a match raises every script's block number past the still pending record",
                    cmd
                ),
            ));
        }
    }
    for (clause, detail) in findings {
        let root = clause == "set_scripts_discards_pending_blocks_without_rewinding"
            || clause == "empty_set_scripts_clears_memory_but_keeps_the_stored_record";
        sim.violate("C09", &clause, detail);
        if root {
            sim.taint = Some(format!("C09/{}", clause));
        }
    }
}
pub fn c16_on_fetch_header(_ck: &mut Checker, _sim: &mut Sim, _h: &packed::Byte32, _r: Option<Result<Value, Value>>) {}
pub fn c16_on_fetch_tx(_ck: &mut Checker, _sim: &mut Sim, _h: &packed::Byte32, _r: Option<Result<Value, Value>>) {}
pub fn c16_on_get_tx(_ck: &mut Checker, _sim: &mut Sim, _h: &packed::Byte32, _r: Option<Result<Value, Value>>) {}
pub fn c02_on_get_header(_ck: &mut Checker, _sim: &mut Sim, _h: &packed::Byte32, _r: Option<Result<Value, Value>>) {}

//! Oracles driven by user operations (C09 step invariant, C16 fetch automaton, C02 get_header).

use ckb_types::packed;
use serde_json::Value;

use crate::oracle::Checker;
use crate::plan::SetCmd;
use crate::refidx::ScriptKey;
use crate::sim::Sim;

pub fn c09_after_set_scripts(_ck: &mut Checker, _sim: &mut Sim, _cmd: &SetCmd, _list: &[(ScriptKey, u64)]) {}
pub fn c16_on_fetch_header(_ck: &mut Checker, _sim: &mut Sim, _h: &packed::Byte32, _r: Option<Result<Value, Value>>) {}
pub fn c16_on_fetch_tx(_ck: &mut Checker, _sim: &mut Sim, _h: &packed::Byte32, _r: Option<Result<Value, Value>>) {}
pub fn c16_on_get_tx(_ck: &mut Checker, _sim: &mut Sim, _h: &packed::Byte32, _r: Option<Result<Value, Value>>) {}
pub fn c02_on_get_header(_ck: &mut Checker, _sim: &mut Sim, _h: &packed::Byte32, _r: Option<Result<Value, Value>>) {}

//! A plan is the explicit, serialisable description of one simulated run: knobs, world,
//! peers and a timed list of external actions. Execution is a pure function of the plan.

use serde::{Deserialize, Serialize};

use crate::chain::ChainParams;
use crate::client::Knobs;

#[derive(Clone, Debug, Serialize, Deserialize, PartialEq)]
pub enum ScriptRef {
    Lock(usize),
    Type(usize),
}

#[derive(Clone, Debug, Serialize, Deserialize, PartialEq)]
pub enum SetCmd {
    All,
    Partial,
    Delete,
    /// no command parameter at all (defaults to `all`)
    Default,
}

/// A hash the user asks about, named symbolically so that plans survive minimisation.
#[derive(Clone, Debug, Serialize, Deserialize, PartialEq)]
pub enum HashRef {
    /// block `number` of `branch` (clamped to the branch tip at execution time)
    Block { branch: usize, number: u64 },
    /// the `k`-th non-cellbase transaction at or below block `number` of `branch`
    /// (falls back to a cellbase)
    Tx { branch: usize, number: u64, k: u64 },
    /// a hash that exists nowhere
    Bogus(u64),
}

#[derive(Clone, Debug, Serialize, Deserialize, PartialEq)]
pub enum UserOp {
    SetScripts {
        cmd: SetCmd,
        /// (script, start block number)
        scripts: Vec<(ScriptRef, u64)>,
    },
    GetScripts,
    /// full paged audit of get_cells / get_transactions / get_cells_capacity of all scripts
    Audit,
    FetchHeader(HashRef),
    FetchTransaction(HashRef),
    GetTransaction(HashRef),
    GetHeader(HashRef),
    GetTipHeader,
    /// submit a transaction built by the generator `spec`
    SendTransaction(TxSpec),
    EstimateCycles(TxSpec),
}

#[derive(Clone, Debug, Serialize, Deserialize, PartialEq)]
pub struct TxSpec {
    pub seed: u64,
    /// which source of inputs: 0 = indexed live cell, 1 = output of a pending tx, 2 = fetched tx
    pub source: u8,
    /// 0 = valid; otherwise one of the invalidating mutations
    pub mutation: u8,
}

#[derive(Clone, Debug, Serialize, Deserialize, PartialEq)]
pub enum Action {
    /// mine `n` blocks on `branch` (timestamps = now)
    Mine { branch: usize, n: u64 },
    /// create a new branch from `src` forking `back` blocks below its tip and mine `n`
    /// blocks on it; the new branch gets the next free index
    Fork { src: usize, back: u64, n: u64 },
    /// like `Fork`, but the new branch is not made heavier than its source (nobody follows it)
    SideFork { src: usize, back: u64, n: u64 },
    /// an attacker's branch: like `Fork`, but its last `forged` blocks carry inconsistent epoch /
    /// difficulty fields of kind `kind` (hash, chain root and dummy PoW stay self-consistent)
    ForgeFork { src: usize, back: u64, n: u64, forged: u64, kind: u8, salt: u64 },
    /// peer starts following `branch` (its view jumps to tip - lag)
    SwitchBranch { peer: usize, branch: usize },
    Connect { peer: usize },
    Disconnect { peer: usize },
    /// the peer's view now stays `lag` blocks behind its branch tip
    SetLag { peer: usize, lag: u64 },
    /// the peer stops answering for `ms`
    Stall { peer: usize, ms: u64 },
    /// drop the next `n` answers of the peer
    LoseAnswers { peer: usize, n: u64 },
    /// clean restart of the client (drop everything, reopen the store)
    Restart,
    /// the client process is stalled: the clock jumps by `ms`, due timers fire afterwards
    ClockJump { ms: u64 },
    /// the client host's wall clock is stepped by `ms` (negative: backwards); no time passes
    ClockSkew { ms: i64 },
    User(UserOp),
    /// connect/disconnect the relay protocol (v2 or v3 chosen by the hard-fork switch) with a peer
    RelayOpen { peer: usize },
    RelayClose { peer: usize },
    /// the relay peer asks for the transactions announced to it
    RelayGetTxs { peer: usize },
    /// the peer delivers a crafted / hostile message, chosen by `spec`
    Inject { peer: usize, spec: InjectSpec },
}

#[derive(Clone, Debug, Serialize, Deserialize, PartialEq)]
pub struct InjectSpec {
    pub seed: u64,
    /// family of crafted message, interpreted by `byz::inject`
    pub kind: u32,
}

#[derive(Clone, Debug, Serialize, Deserialize, PartialEq)]
pub struct Timed {
    pub at: u64,
    pub action: Action,
}

/// One mutation a deviating peer applies to one of its own honest answers.
#[derive(Clone, Debug, Serialize, Deserialize, PartialEq)]
pub struct MutSpec {
    /// which answer kind (see `byz::Kind`)
    pub kind: u32,
    /// apply to the `ordinal`-th answer of this kind the peer produces
    pub ordinal: u64,
    /// which mutation (interpreted per kind) and its own entropy
    pub op: u32,
    pub seed: u64,
}

#[derive(Clone, Debug, Serialize, Deserialize, PartialEq)]
pub struct PeerPlan {
    /// stable identity (peer id / address); sessions get fresh indices
    pub identity: u64,
    pub branch: usize,
    /// how many blocks behind its branch tip the peer's view stays
    pub lag: u64,
    /// base one-way latency in ms
    pub latency: u64,
    pub jitter: u64,
    pub filters_batch: u64,
    pub hashes_batch: u64,
    pub check_points_batch: u64,
    pub v1: bool,
    /// empty = protocol-following peer
    pub mutations: Vec<MutSpec>,
    /// a deviating check-point / filter-hash vector: hashes from this block number on are
    /// replaced by values derived from `salt` (0 = truthful)
    pub lie_from: u64,
    pub lie_salt: u64,
    /// check points only: the number of check points lied about, after which the vector is
    /// truthful again (0 = all from `lie_from` on)
    #[serde(default)]
    pub lie_span: u64,
}

impl Default for PeerPlan {
    fn default() -> Self {
        PeerPlan {
            identity: 1,
            branch: 0,
            lag: 0,
            latency: 50,
            jitter: 20,
            filters_batch: 1000,
            hashes_batch: 2000,
            check_points_batch: 2000,
            v1: true,
            mutations: Vec::new(),
            lie_from: 0,
            lie_salt: 0,
            lie_span: 0,
        }
    }
}

#[derive(Clone, Debug, Serialize, Deserialize, PartialEq)]
pub struct Plan {
    pub property: String,
    pub seed: u64,
    pub knobs: Knobs,
    pub chain: ChainParams,
    /// length of the initial main chain (branch 0), mined before time 0
    pub initial_blocks: u64,
    pub peers: Vec<PeerPlan>,
    pub actions: Vec<Timed>,
    /// stop after this much virtual time (ms) / this many events
    pub max_time: u64,
    pub max_events: u64,
    /// no fault/user action is scheduled after this time; liveness clocks start here
    pub quiet_from: u64,
    /// install a discard logger at Trace level (executes all log argument expressions)
    pub trace_logging: bool,
    /// scenario specific switches, interpreted by the oracles
    pub flags: Vec<String>,
}

impl Plan {
    pub fn has_flag(&self, f: &str) -> bool {
        self.flags.iter().any(|x| x == f)
    }
}

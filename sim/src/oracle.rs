//! Oracles: invariants evaluated while a run proceeds and checks over its history.
//! Each finding is attributed to one property (`Cxx/clause`).

use std::collections::{BTreeMap, BTreeSet, HashMap, HashSet};

use ckb_network::{bytes::Bytes, PeerIndex};
use ckb_types::{
    packed::{self, Byte32},
    prelude::*,
    utilities::merkle_mountain_range::VerifiableHeader,
    U256,
};

use crate::client::{Proto, Unwind};
use crate::plan::Plan;
use crate::refidx::{self, Coverage, ScriptKey};
use crate::sim::{Kind, Sim, Tag};

#[derive(Clone, Debug, Default)]
pub struct ScriptModel {
    /// Some(start) while registered
    pub registered: Option<u64>,
    /// blocks examined under earlier registrations
    pub prev: Coverage,
    pub last_progress: u64,
    /// set while the reported height is the result of a rollback that has not been re-synced
    pub rolled_back_to: Option<u64>,
}

#[derive(Clone, Debug, Default)]
pub struct TrustSnap {
    pub tip_hash: Vec<u8>,
    pub tip_number: u64,
    pub td: U256,
    pub last_n: Vec<(u64, Vec<u8>)>,
    /// per session: (prove state last header hash, request content bytes)
    pub prove: BTreeMap<usize, (Option<Vec<u8>>, Option<Vec<u8>>)>,
    pub raw_last_state: Vec<u8>,
    /// per session: digest of the whole prove state (last header, difficulty, reorg and last-N lists)
    pub prove_digest: BTreeMap<usize, Vec<u8>>,
    pub max_script_progress: u64,
    pub min_filtered: u64,
}

#[derive(Default)]
pub struct Checker {
    pub honest_only: bool,
    pub check_index: bool,
    pub stride: Option<u64>,
    pub flags: HashSet<String>,
    pub scripts: BTreeMap<ScriptKey, ScriptModel>,
    pub last_fault_at: u64,
    pub caught_up_times: Vec<u64>,
    pub first_caught_up_after_quiet: Option<u64>,
    /// virtual time of the last ban of a protocol-following peer (reported under C05)
    pub last_honest_ban: Option<u64>,
    pub tip_ok_after_quiet: Option<u64>,
    pub audits: u64,
    pub snap: TrustSnap,
    pub prev_td: Option<U256>,
    pub prev_tip: Vec<u8>,
    /// headers outside the honest chain tree that were adopted consistently (dummy PoW)
    pub attacker_blocks: HashMap<Vec<u8>, U256>,
    /// sessions whose timeout-disconnect is justified by an injected fault / silent server
    pub excused: HashMap<usize, String>,
    pub unwind_ctx: Option<String>,
    /// the message currently being handled by the client: (session, provenance, bytes)
    pub cur: Option<(usize, Tag, Bytes)>,
    /// the message handled by the event that just finished (for checks run after the event)
    pub last_cur: Option<(usize, Tag, Bytes)>,
    /// set_scripts calls that rewound filter sync: (min_filtered before, after, genesis re-filtered)
    pub rewinds: Vec<(u64, u64, bool)>,
    /// the injected crash interrupted a set_scripts call
    pub crash_in_set_scripts: bool,
    /// hashes of start points the client may legitimately use (collected before the event)
    pub allowed_starts: HashSet<Vec<u8>>,
    pub c07: crate::oracle2::C07State,
    pub c11: crate::oracle2::C11State,
    pub c16: crate::oracle2::C16State,
    pub c18: crate::oracle2::C18State,
    pub c06: crate::oracle2::C06State,
    pub c09f: crate::oracle3::C09FiltersState,
    pub c02: crate::oracle2::C02State,
    pub c01: crate::oracle2::C01State,
    pub c04: crate::oracle2::C04State,
}

impl Checker {
    pub fn new(plan: &Plan) -> Checker {
        let mut c = Checker::default();
        c.flags = plan.flags.iter().cloned().collect();
        c.honest_only = plan.has_flag("honest");
        c.check_index = plan.has_flag("index");
        c.stride = plan
            .flags
            .iter()
            .find_map(|f| f.strip_prefix("audit_stride=").and_then(|v| v.parse::<u64>().ok()))
            .map(|k| k.max(1));
        c
    }

    pub fn flag(&self, f: &str) -> bool {
        self.flags.contains(f)
    }

    // ------------------------------------------------------------------ snapshots

    pub fn take_snap(sim: &Sim) -> TrustSnap {
        let c = match sim.client.as_ref() {
            Some(c) => c,
            None => return TrustSnap::default(),
        };
        let (td, tip) = c.storage.get_last_state();
        let mut s = TrustSnap::default();
        s.tip_hash = tip.calc_header_hash().as_slice().to_vec();
        s.tip_number = tip.raw().number().unpack();
        s.td = td;
        s.last_n = c
            .storage
            .get_last_n_headers()
            .into_iter()
            .map(|(n, h)| (n, h.as_slice().to_vec()))
            .collect();
        s.max_script_progress = c
            .storage
            .get_filter_scripts()
            .iter()
            .map(|x| x.block_number)
            .max()
            .unwrap_or(0);
        s.min_filtered = c.storage.get_min_filtered_block_number();
        for (session, _) in sim.sessions.iter() {
            if let Some(st) = c.peers.get_state(&PeerIndex::new(*session)) {
                let ps = st
                    .get_prove_state()
                    .map(|p| p.get_last_header().header().hash().as_slice().to_vec());
                if let Some(p) = st.get_prove_state() {
                    let mut d: Vec<u8> = Vec::new();
                    d.extend_from_slice(p.get_last_header().header().hash().as_slice());
                    d.extend_from_slice(&p.get_last_header().total_difficulty().to_le_bytes());
                    for h in p.get_reorg_last_headers() {
                        d.extend_from_slice(h.hash().as_slice());
                    }
                    d.push(0xff);
                    for h in p.get_last_headers() {
                        d.extend_from_slice(h.hash().as_slice());
                    }
                    s.prove_digest.insert(*session, d);
                }
                let pr = st
                    .get_prove_request()
                    .map(|r| r.get_content().as_slice().to_vec());
                s.prove.insert(*session, (ps, pr));
            }
        }
        s
    }

    fn collect_allowed_starts(&mut self, sim: &Sim) {
        let s = Self::take_snap(sim);
        self.allowed_starts.insert(s.tip_hash.clone());
        for (_, h) in &s.last_n {
            self.allowed_starts.insert(h.clone());
        }
        for (_, (ps, _)) in &s.prove {
            if let Some(h) = ps {
                self.allowed_starts.insert(h.clone());
            }
        }
        self.allowed_starts
            .insert(sim.world.genesis().hash().as_slice().to_vec());
        self.snap = s;
    }

    // ------------------------------------------------------------------ hooks

    pub fn on_boot(&mut self, sim: &mut Sim) {
        self.allowed_starts.clear();
        self.collect_allowed_starts(sim);
        crate::oracle2::c12_check(self, sim, true);
        crate::oracle2::c07_on_boot(self, sim);
        crate::oracle2::c11_on_boot(self, sim);
        self.c18.pool.clear();
        self.c18.used.clear();
    }

    pub fn on_crash_restart(&mut self, sim: &mut Sim) {
        // in-memory state is gone; liveness clocks restart here
        self.first_caught_up_after_quiet = None;
        self.tip_ok_after_quiet = None;
        self.cur = None;
        sim.stat("probe.c08.crash_cases");
        if sim.last_event_kind == "user.set_scripts" {
            self.crash_in_set_scripts = true;
            sim.stat("probe.c08.crash_inside_set_scripts");
        }
        // an interrupted set_scripts may or may not have taken effect: adopt the stored set
        if let Some(c) = sim.client.as_ref() {
            let stored: BTreeMap<ScriptKey, u64> = c
                .storage
                .get_filter_scripts()
                .into_iter()
                .map(|ss| {
                    (
                        ScriptKey::new(
                            &ss.script,
                            matches!(ss.script_type, crate::storage::ScriptType::Type),
                        ),
                        ss.block_number,
                    )
                })
                .collect();
            for (k, m) in self.scripts.iter_mut() {
                if m.registered.is_some() && !stored.contains_key(k) {
                    m.registered = None;
                    m.prev = Coverage::default();
                }
            }
            for (k, n) in stored {
                let m = self.scripts.entry(k).or_default();
                if m.registered.is_none() {
                    m.registered = Some(n);
                    m.last_progress = n;
                } else if m.registered.map(|s| s > n).unwrap_or(false) {
                    // the interrupted command re-registered it with another start number
                    m.registered = Some(n);
                }
            }
        }
    }

    pub fn on_unwind(&mut self, sim: &mut Sim, what: &str, proto: Option<Proto>, u: &Unwind) {
        let ctx = self.unwind_ctx.take().unwrap_or_default();
        if u.message == "long fork detected" {
            // the documented abort: legitimate only after the from-genesis request (C04)
            crate::oracle2::c04_on_long_fork_abort(self, sim, &ctx);
            return;
        }
        let norm = normalize(&u.message);
        let what_s = match proto {
            Some(p) if what == "received" || what == "notify" || what == "connected" || what == "disconnected" => {
                format!("{}.{}", p.name(), what)
            }
            _ => what.to_string(),
        };
        if what == "rpc" || what == "boot" || what == "init" {
            // not a peer message: attribute to the property under which the scenario runs
            let prop = if ctx.contains("rpc send_transaction") || ctx.contains("rpc estimate_cycles") {
                "C18"
            } else if self.flag("crash") {
                "C08"
            } else {
                "C03"
            };
            sim.violate(
                prop,
                &format!("abort_in_{}:{}", what, norm),
                format!("{} @ {} ; {}", u.message, u.location, ctx),
            );
            return;
        }
        sim.violate(
            "C10",
            &format!("panic:{}:{}", what_s, norm),
            format!("{} @ {} ; {}", u.message, u.location, ctx),
        );
    }

    pub fn note_unwind_context(&mut self, session: usize, proto: Proto, data: &Bytes, tag: &Tag) {
        self.unwind_ctx = Some(format!(
            "while handling {} from s{} ({}) {}",
            crate::sim::describe(proto, data),
            session,
            if tag.honest { "honest" } else { "crafted" },
            tag.note
        ));
    }

    pub fn on_client_send(&mut self, sim: &mut Sim, session: usize, proto: Proto, data: &Bytes) {
        if proto == Proto::LightClient {
            if let Ok(m) = packed::LightClientMessageReader::from_compatible_slice(data) {
                if let packed::LightClientMessageUnionReader::GetLastStateProof(r) = m.to_enum() {
                    crate::oracle2::c15_check(self, sim, session, &r.to_entity());
                }
            }
        }
        crate::oracle2::c11_on_client_send(self, sim, session, proto, data);
        crate::oracle2::c18_on_client_send(self, sim, session, proto, data);
        crate::oracle2::c04_on_client_send(self, sim, session, proto, data);
    }

    pub fn on_ban(&mut self, sim: &mut Sim, session: usize, reason: &str, _origin: Option<usize>) {
        let p = sim.sessions.get(&session).cloned();
        let deviating = p
            .map(|p| {
                !sim.plan.peers[p].mutations.is_empty()
                    || sim.plan.peers[p].lie_salt != 0
                    || self.c01.crafted_sessions.contains(&session)
            })
            .unwrap_or(false);
        if !deviating && self.honest_only {
            // a protocol-following peer got banned (in a world of protocol-following peers)
            let code = reason.split(':').next().unwrap_or(reason).to_string();
            let mut clause = format!("honest_peer_banned:{}", normalize(&code));
            // reorg window: the banned peer, or a peer contributing to the agreed filter
            // hashes, answers from another branch than the one the client has proven for it
            if let (Some(p), Some(c)) = (p, sim.client.as_ref()) {
                let view = sim.peers[p].view;
                let filter_answer = self
                    .cur
                    .as_ref()
                    .map(|(_, t, _)| {
                        matches!(
                            t.kind,
                            Kind::BlockFilters | Kind::BlockFilterHashes | Kind::BlockFilterCheckPoints
                        )
                    })
                    .unwrap_or(false);
                let mut off_chain = false;
                // does every proven header already lie on the banned peer's branch *only* (above
                // the point where any other branch leaves it)? Then the client has seen the switch
                // for every peer, and nothing of the abandoned branch may be held against an answer
                let mut all_show_the_fork = true;
                for (s2, _) in sim.sessions.iter() {
                    let proven = c
                        .peers
                        .get_state(&PeerIndex::new(*s2))
                        .and_then(|st| st.get_prove_state().map(|ps| ps.get_last_header().header().hash()));
                    if let Some(h) = proven {
                        if let Some(id) = sim.world.by_hash.get(&h) {
                            let tip_id = sim.world.branches[view.branch].ids[view.height as usize];
                            if !sim.world.is_ancestor_or_self(*id, tip_id) {
                                off_chain = true;
                            }
                            for b2 in 0..sim.world.branches.len() {
                                if b2 != view.branch {
                                    let other_tip = *sim.world.branches[b2].ids.last().expect("branch has a genesis");
                                    if sim.world.is_ancestor_or_self(*id, other_tip) {
                                        all_show_the_fork = false;
                                    }
                                }
                            }
                        }
                    }
                }
                // ... or the filter hashes agreed on so far reach above a fork point that the
                // proven headers do not show yet: a peer switched branches a moment ago
                // ... and do all connected peers follow one chain now? (a peer that is still on -
                // or already on - another branch feeds the agreed filter hashes from there)
                let mut views_disagree = false;
                for q in sim.peers.iter().filter(|q| q.session.is_some()) {
                    let a = sim.world.branches[q.view.branch].ids[q.view.height as usize];
                    let b = sim.world.branches[view.branch].ids[view.height as usize];
                    if !sim.world.is_ancestor_or_self(a, b) && !sim.world.is_ancestor_or_self(b, a) {
                        views_disagree = true;
                    }
                }
                if let Some(t) = sim.last_reorg_at {
                    if sim.now < t + 120_000 && (!all_show_the_fork || views_disagree) {
                        off_chain = true;
                    }
                }
                if off_chain && (filter_answer || reason.contains("check points")) {
                    clause = "honest_peer_banned_for_filter_answer_during_reorg_window".to_string();
                }
            }
            // stale per-peer filter hashes of an abandoned branch: consequence of a fork the
            // client could not notice (C04 root cause)
            let filter_kind = self
                .cur
                .as_ref()
                .map(|(_, t, _)| {
                    matches!(
                        t.kind,
                        Kind::BlockFilters | Kind::BlockFilterHashes | Kind::BlockFilterCheckPoints
                    )
                })
                .unwrap_or(false);
            if filter_kind && !clause.contains("during_reorg_window") {
                if let Some((c4, fork)) = self.c04.unnoticed.last().cloned() {
                    sim.violate(
                        "C04",
                        &c4,
                        format!(
                            "the tip moved to another branch (fork point #{}) without the client noticing; filter hashes of the abandoned branch are still held and the honest s{} is banned: {}",
                            fork, session, reason
                        ),
                    );
                    sim.taint = Some(format!("C04/{}", c4));
                    return;
                }
            }
            if let Some((s, tag, _)) = self.cur.as_ref() {
                if *s == session && tag.honest && tag.kind == Kind::SendLastStateProof {
                    let asked_samples = tag
                        .request
                        .as_ref()
                        .and_then(|r| {
                            packed::LightClientMessageReader::from_compatible_slice(r)
                                .ok()
                                .map(|m| match m.to_enum() {
                                    packed::LightClientMessageUnionReader::GetLastStateProof(
                                        r,
                                    ) => !r.difficulties().is_empty(),
                                    _ => false,
                                })
                        })
                        .unwrap_or(false);
                    if let Some(l) = tag.layout.as_ref() {
                        if asked_samples && l.sampled.is_empty() && !l.tip_changed {
                            clause = "honest_peer_banned:proof_whose_samples_all_fall_into_last_n"
                                .to_string();
                        }
                    }
                }
            }
            // C04 ("... and sync resumes"): after a fork switch that the client has seen for every
            // peer, an honest filter answer from the new chain must be accepted
            if filter_kind && !clause.contains("during_reorg_window") && sim.last_reorg_at.is_some() && sim.taint.is_none() {
                sim.violate(
                    "C04",
                    "honest_filter_answer_rejected_after_the_fork_switch",
                    format!(
                        "all connected peers follow one chain and every proven header lies on it, yet s{} is banned for its filter answer: {}",
                        session, reason
                    ),
                );
            }
            self.last_honest_ban = Some(sim.now);
            sim.violate(
                "C05",
                &clause,
                format!("s{} banned: {} ; last event {}", session, reason, sim.last_event_kind),
            );
        }
        crate::oracle2::c11_on_ban(self, sim, session, reason);
        crate::oracle2::c07_on_ban(self, sim, session, reason);
    }

    pub fn on_disconnect(&mut self, sim: &mut Sim, session: usize, msg: &str) {
        crate::oracle2::c11_on_disconnect(self, sim, session, msg);
    }

    pub fn on_connect(&mut self, sim: &mut Sim, session: usize, p: usize) {
        crate::oracle2::c11_on_connect(self, sim, session, p);
    }

    pub fn on_session_closed(&mut self, sim: &mut Sim, session: usize, p: usize) {
        crate::oracle2::c11_on_session_closed(self, sim, session, p);
        self.excused.remove(&session);
        self.c07.delivered.remove(&session);
    }

    pub fn on_fault(&mut self, sim: &mut Sim, what: &str, peer: Option<usize>) {
        self.last_fault_at = sim.now;
        match peer {
            Some(p) => {
                if let Some(s) = sim.peers[p].session {
                    self.excused.insert(s, what.to_string());
                }
            }
            None => {
                for s in sim.sessions.keys() {
                    self.excused.insert(*s, what.to_string());
                }
            }
        }
    }

    pub fn on_server_silent(&mut self, sim: &mut Sim, session: usize, what: &str, why: &str) {
        // The model refused to answer a request of the client (the direct C15 checks judge
        // the request itself); the resulting timeout is not the peer's fault.
        let _ = what;
        sim.stat("probe.server_refused_request");
        self.excused.insert(session, format!("server silent: {}", why));
    }

    pub fn before_deliver(
        &mut self,
        sim: &mut Sim,
        session: usize,
        proto: Proto,
        data: &Bytes,
        tag: &Tag,
    ) {
        self.collect_allowed_starts(sim);
        self.cur = Some((session, tag.clone(), data.clone()));
        if !tag.honest {
            self.c01.crafted_sessions.insert(session);
        }
        crate::oracle2::c01_before(self, sim, session, proto, data, tag);
        crate::oracle2::c02_before(self, sim, session, proto, data, tag);
        crate::oracle2::c06_before(self, sim, session, proto, data, tag);
        crate::oracle2::c07_before(self, sim, session, proto, data, tag);
        crate::oracle2::c11_before(self, sim, session, proto, data, tag);
        crate::oracle3::c09_filters_before(self, sim, proto, data);
    }

    pub fn after_deliver(
        &mut self,
        sim: &mut Sim,
        session: usize,
        proto: Proto,
        data: &Bytes,
        tag: &Tag,
    ) {
        crate::oracle2::c04_after(self, sim, session, proto, data, tag);
        crate::oracle2::c01_after(self, sim, session, proto, data, tag);
        crate::oracle2::c02_after(self, sim, session, proto, data, tag);
        crate::oracle2::c06_after(self, sim, session, proto, data, tag);
        crate::oracle2::c11_after(self, sim, session, proto, data, tag);
        crate::oracle2::c16_after_deliver(self, sim, session, proto, data, tag);
        crate::oracle3::c09_filters_after(self, sim);
        self.last_cur = self.cur.take();
    }

    pub fn before_timer(&mut self, sim: &mut Sim, proto: Proto, token: u64) {
        self.last_cur = None;
        self.collect_allowed_starts(sim);
        crate::oracle2::c11_before_timer(self, sim, proto, token);
    }

    pub fn after_timer(&mut self, sim: &mut Sim, proto: Proto, token: u64) {
        crate::oracle2::c11_after_timer(self, sim, proto, token);
    }

    pub fn after_event(&mut self, sim: &mut Sim) {
        if sim.client.is_none() {
            return;
        }
        crate::oracle2::c12_check(self, sim, false);
        crate::oracle2::c07_check(self, sim);
        crate::oracle2::c11_scan(self, sim);
        crate::oracle2::c06_progress(self, sim);
        self.refresh_script_progress(sim);
        if self.flag("audit_every_event") {
            self.audit(sim, "step");
        } else if let Some(k) = self.stride {
            if sim.events % k == 0 {
                self.audit(sim, "step");
            }
        }
        // coverage: (event kind, abstract state)
        let st = self.abstract_state(sim);
        let h = crate::entropy::mix(&[crate::entropy::hash_str(&sim.last_event_kind), st]);
        sim.coverage.insert(h);
        // caught-up instants
        if sim.trace.is_some() && sim.events % 50 == 0 {
            let d = self.describe_progress(sim);
            let t = self.tip_is_best(sim);
            let (now, ev) = (sim.now, sim.events);
            if let Some(tr) = sim.trace.as_mut() {
                // not part of the trace hash (only exists in verbose replays)
                tr.push(format!("[{:>8} #{:<5}] progress: tip_is_best={} {}", now, ev, t, d));
            }
        }
        if self.is_caught_up(sim) {
            sim.stat("probe.caught_up_instant");
            self.caught_up_times.push(sim.now);
            if sim.now >= sim.plan.quiet_from && self.first_caught_up_after_quiet.is_none() {
                self.first_caught_up_after_quiet = Some(sim.now);
                if self.check_index {
                    self.audit(sim, "caught_up");
                }
                if self.flag("stop_when_caught_up") {
                    sim.stop = true;
                }
            } else if self.check_index
                && self.flag("audit_each_caught_up")
                && sim.now < sim.plan.quiet_from
            {
                self.audit(sim, "caught_up_mid");
            }
        }
        if sim.now >= sim.plan.quiet_from && self.tip_ok_after_quiet.is_none() && self.tip_is_best(sim)
        {
            self.tip_ok_after_quiet = Some(sim.now);
        }
    }

    pub fn at_end(&mut self, sim: &mut Sim) {
        if sim.stop && !sim.violations.is_empty() {
            return;
        }
        if sim.stats.get("crash_injected").is_some() || self.c04.aborted {
            return;
        }
        if sim.client.is_none() {
            return;
        }
        // A banned honest peer (a C05 violation, reported where it happens) stays away for five
        // minutes: from the client's side the faults have not stopped, and the bounds below,
        // which are counted from `quiet_from`, do not apply.
        if let Some(t) = self.last_honest_ban {
            if t + 300_000 > sim.plan.quiet_from {
                sim.stat("probe.liveness_not_judged_after_honest_ban");
                crate::oracle2::c18_at_end(self, sim);
                return;
            }
        }
        // bounded liveness (C05): with honest peers connected and faults stopped, the tip
        // must have reached the heaviest announced tip
        if self.flag("expect_converge") {
            let any_connected = sim.peers.iter().any(|p| p.session.is_some());
            if self.tip_ok_after_quiet.is_none() && any_connected {
                let (_, tip) = sim.client.as_ref().unwrap().storage.get_last_state();
                let n: u64 = tip.raw().number().unpack();
                let best = sim.best_connected_view();
                sim.violate(
                    "C05",
                    "tip_not_converged",
                    format!(
                        "faults stopped at {} ms, run ended at {} ms: client tip {} but best connected view {:?}",
                        sim.plan.quiet_from, sim.now, n, best
                    ),
                );
            }
        }
        if self.flag("expect_caught_up") {
            let any_connected = sim.peers.iter().any(|p| p.session.is_some());
            let has_scripts = !sim
                .client
                .as_ref()
                .unwrap()
                .storage
                .get_filter_scripts()
                .is_empty();
            if self.first_caught_up_after_quiet.is_none() && any_connected && has_scripts {
                let detail = self.describe_progress(sim);
                let prop = if self.flag("crash") {
                    "C08"
                } else if self.flag("fork") {
                    "C04"
                } else if self.flag("setscripts") {
                    "C09"
                } else if self.flag("byz_filters") {
                    "C06"
                } else {
                    "C03"
                };
                // is the client waiting for a matched block that is not on its chain any more?
                let mut clause = "sync_not_caught_up";
                if self.c04.from_genesis_requests >= 3 {
                    clause = "long_fork_recheck_repeats_without_abort";
                }
                {
                    let c = sim.client.as_ref().unwrap();
                    let (_, tip) = c.storage.get_last_state();
                    if let (Some((_, _, blocks)), Some(path)) = (
                        c.storage.get_earliest_matched_blocks(),
                        refidx::canonical_path(&sim.world, &tip.calc_header_hash()),
                    ) {
                        let on_chain: std::collections::HashSet<Byte32> =
                            path.iter().map(|id| sim.world.blocks[*id].hash()).collect();
                        if blocks.iter().any(|(h, _)| !on_chain.contains(h)) {
                            clause = "matched_record_spanning_fork_keeps_abandoned_hashes";
                        }
                    }
                }
                sim.violate(prop, clause, detail);
            }
        }
        crate::oracle2::c16_at_end(self, sim);
        crate::oracle2::c18_at_end(self, sim);
        crate::oracle2::c07_at_end(self, sim);
        crate::oracle2::c02_scan(self, sim, "end");
    }

    // ------------------------------------------------------------------ index oracle

    pub fn refresh_script_progress(&mut self, sim: &Sim) {
        let c = match sim.client.as_ref() {
            Some(c) => c,
            None => return,
        };
        for ss in c.storage.get_filter_scripts() {
            let key = ScriptKey::new(
                &ss.script,
                matches!(ss.script_type, crate::storage::ScriptType::Type),
            );
            let m = self.scripts.entry(key).or_default();
            if ss.block_number < m.last_progress {
                // rollback: earlier coverage above the new height is void
                m.prev.truncate(ss.block_number);
                m.rolled_back_to = Some(ss.block_number);
            } else if ss.block_number > m.last_progress {
                m.rolled_back_to = None;
            }
            m.last_progress = ss.block_number;
        }
    }

    /// Applies a set_scripts command to the script model (README semantics).
    pub fn model_set_scripts(
        &mut self,
        cmd: &crate::plan::SetCmd,
        list: &[(ScriptKey, u64)],
        pending_start: Option<u64>,
    ) {
        use crate::plan::SetCmd;
        // blocks of a still pending matched record were not indexed yet, whatever the
        // reported number says
        let settled = pending_start.map(|s| s.saturating_sub(1)).unwrap_or(u64::MAX);
        let retire = |m: &mut ScriptModel| {
            if let Some(start) = m.registered.take() {
                if start == 0 {
                    m.prev.genesis = true;
                }
                m.prev.add(start, m.last_progress.min(settled));
            }
        };
        match cmd {
            SetCmd::All | SetCmd::Default => {
                for (_, m) in self.scripts.iter_mut() {
                    retire(m);
                }
                for (k, start) in list {
                    let m = self.scripts.entry(k.clone()).or_default();
                    retire(m);
                    m.registered = Some(*start);
                    m.last_progress = *start;
                }
            }
            SetCmd::Partial => {
                for (k, start) in list {
                    let m = self.scripts.entry(k.clone()).or_default();
                    retire(m);
                    m.registered = Some(*start);
                    m.last_progress = *start;
                }
            }
            SetCmd::Delete => {
                for (k, _) in list {
                    if let Some(m) = self.scripts.get_mut(k) {
                        retire(m);
                    }
                }
            }
        }
    }

    pub fn registered(&self) -> Vec<(ScriptKey, u64)> {
        self.scripts
            .iter()
            .filter_map(|(k, m)| m.registered.map(|s| (k.clone(), s)))
            .collect()
    }

    pub fn is_caught_up(&self, sim: &Sim) -> bool {
        let c = match sim.client.as_ref() {
            Some(c) => c,
            None => return false,
        };
        if !self.tip_is_best(sim) {
            return false;
        }
        let (_, tip) = c.storage.get_last_state();
        let tip_number: u64 = tip.raw().number().unpack();
        let scripts = c.storage.get_filter_scripts();
        if scripts.is_empty() {
            return true;
        }
        if scripts.iter().any(|s| s.block_number != tip_number) {
            return false;
        }
        if c.storage.get_min_filtered_block_number() != tip_number {
            return false;
        }
        if c.storage.get_earliest_matched_blocks().is_some() {
            return false;
        }
        match c.peers.matched_blocks().try_read() {
            Ok(m) => m.is_empty(),
            Err(_) => false,
        }
    }

    pub fn tip_is_best(&self, sim: &Sim) -> bool {
        let c = match sim.client.as_ref() {
            Some(c) => c,
            None => return false,
        };
        let best = match sim.best_connected_view() {
            Some(v) => v,
            None => return false,
        };
        let (td, tip) = c.storage.get_last_state();
        let best_td = sim.world.td(best.branch, best.height);
        // equal-difficulty siblings are both acceptable
        td >= best_td && sim.world.by_hash.contains_key(&tip.calc_header_hash())
    }

    fn describe_progress(&self, sim: &Sim) -> String {
        let c = sim.client.as_ref().unwrap();
        let (_, tip) = c.storage.get_last_state();
        let n: u64 = tip.raw().number().unpack();
        let scripts: Vec<u64> = c
            .storage
            .get_filter_scripts()
            .iter()
            .map(|s| s.block_number)
            .collect();
        let states: Vec<String> = sim
            .sessions
            .keys()
            .filter_map(|s| c.peers.get_state(&PeerIndex::new(*s)).map(|st| format!("s{}:{}", s, st)))
            .collect();
        format!(
            "quiet since {} ms, ended {} ms; tip {}, best view {:?}, min_filtered {}, scripts at {:?}, pending record {:?}, finalized cp {}, peers {:?}",
            sim.plan.quiet_from,
            sim.now,
            n,
            sim.best_connected_view(),
            c.storage.get_min_filtered_block_number(),
            scripts,
            c.storage.get_earliest_matched_blocks().map(|(s, c, b)| (s, c, b.len())),
            c.storage.get_max_check_point_index(),
            states
        )
    }

    /// Full audit of every registered script against the reference indexer.
    pub fn audit(&mut self, sim: &mut Sim, when: &str) {
        self.audits += 1;
        sim.stat("probe.audit");
        let (tip_hash, tip_number) = {
            let c = sim.client.as_ref().unwrap();
            let (_, tip) = c.storage.get_last_state();
            (tip.calc_header_hash(), Unpack::<u64>::unpack(&tip.raw().number()))
        };
        let path = match refidx::canonical_path(&sim.world, &tip_hash) {
            Some(p) => p,
            None => return, // C12 reports unknown tips
        };
        let prop = self.index_property();
        let step = !when.starts_with("caught_up");
        let reported: Vec<(ScriptKey, u64)> = {
            let c = sim.client.as_ref().unwrap();
            c.storage
                .get_filter_scripts()
                .into_iter()
                .map(|ss| {
                    (
                        ScriptKey::new(
                            &ss.script,
                            matches!(ss.script_type, crate::storage::ScriptType::Type),
                        ),
                        ss.block_number,
                    )
                })
                .collect()
        };
        // (a) the registered set equals the model (C09)
        let model: BTreeSet<ScriptKey> = self.registered().into_iter().map(|(k, _)| k).collect();
        let got: BTreeSet<ScriptKey> = reported.iter().map(|(k, _)| k.clone()).collect();
        if model != got {
            sim.violate(
                "C09",
                "script_set_differs_from_readme_model",
                format!(
                    "get_scripts reports {:?} but the documented semantics give {:?}",
                    got.iter().map(|k| k.short()).collect::<Vec<_>>(),
                    model.iter().map(|k| k.short()).collect::<Vec<_>>()
                ),
            );
        }
        let limit = 1 + crate::entropy::mix(&[sim.plan.seed, self.audits]) % 7;
        for (key, progress) in reported {
            let m = self.scripts.get(&key).cloned().unwrap_or_default();
            let mut required = m.prev.clone();
            if let Some(start) = m.registered {
                if start == 0 {
                    required.genesis = true;
                }
                required.add(start, progress);
            }
            let truth = refidx::truth_for(&sim.world, &path, &key);
            let got = match refidx::audit_script(sim.client.as_mut().unwrap(), &key, limit) {
                Ok(Ok(g)) => g,
                Ok(Err(e)) => {
                    sim.violate(prop, "rpc_error_during_audit", e);
                    continue;
                }
                Err(u) => {
                    self.unwind_ctx = Some(format!("audit of {}", key.short()));
                    let prop = prop.to_string();
                    sim.violate(
                        &prop,
                        &format!("abort_in_rpc:{}", normalize(&u.message)),
                        format!("{} @ {}", u.message, u.location),
                    );
                    sim.stop = true;
                    return;
                }
            };
            sim.stat_add("probe.audit_pages", got.pages);
            sim.stat_add("probe.audit_cells", got.cells.len() as u64);
            sim.stat_add("probe.audit_entries", got.entries.len() as u64);
            for (clause, detail, block) in refidx::compare(
                &sim.world,
                &key,
                &truth,
                &got,
                &required,
                progress,
                tip_number,
                &tip_hash,
            ) {
                let completeness = matches!(
                    clause.as_str(),
                    "missing_live_cell"
                        | "missing_tx_entry"
                        | "spent_cell_reported_live"
                        | "spent_cell_outside_own_range_reported_live"
                );
                // a spent cell resurrected by re-filtering its creating block (after a
                // set_scripts rewind) while the spending block is not examined again
                let mut clause = clause;
                if clause.starts_with("spent_cell") {
                    let created = detail
                        .rsplit("[created=")
                        .next()
                        .and_then(|x| x.trim_end_matches(']').parse::<u64>().ok())
                        .unwrap_or(u64::MAX);
                    let resurrected = self.rewinds.iter().any(|(_before, after, genesis)| {
                        (created == 0 && *genesis) || created > *after
                    });
                    if resurrected {
                        clause = "spent_cell_resurrected_by_refiltering_its_creating_block".to_string();
                        sim.violate("C09", &clause, format!("[{}] {}", when, detail));
                        continue;
                    }
                }
                if step && completeness {
                    // mid-sync: the answers are judged against the height get_scripts reports (C09)
                    // (the "previous tip is block#1" safety rollback leaves the number at 1)
                    let after_rollback = block == progress
                        && (m.rolled_back_to == Some(progress) || progress == 1);
                    let c = if after_rollback {
                        "rollback_reports_removed_block_as_filtered".to_string()
                    } else {
                        format!("reported_height_but_{}", clause)
                    };
                    sim.violate("C09", &c, format!("[{}] {}", when, detail));
                } else if prop == "C08" && self.crash_in_set_scripts {
                    sim.violate(
                        "C08",
                        "crash_inside_set_scripts_leaves_partial_update",
                        format!("the process died inside set_scripts; after restart and re-sync [{}]: {}", when, detail),
                    );
                    sim.taint = Some("C08/crash_inside_set_scripts_leaves_partial_update".into());
                } else if prop == "C04" && !self.c04.unnoticed.is_empty() {
                    let (c4, fork) = self.c04.unnoticed.last().cloned().unwrap();
                    sim.violate(
                        "C04",
                        &c4,
                        format!("fork point #{} went unnoticed; index audit [{}]: {}", fork, when, detail),
                    );
                    sim.taint = Some(format!("C04/{}", c4));
                } else {
                    sim.violate(prop, &clause, format!("[{}] {}", when, detail));
                }
            }
        }
    }

    pub fn index_property(&self) -> &'static str {
        if self.flag("crash") {
            "C08"
        } else if self.flag("fork") {
            "C04"
        } else if self.flag("setscripts") {
            "C09"
        } else if self.flag("byz_filters") {
            "C06"
        } else if self.flag("byz_blocks") {
            "C02"
        } else {
            "C03"
        }
    }

    fn abstract_state(&self, sim: &Sim) -> u64 {
        let c = match sim.client.as_ref() {
            Some(c) => c,
            None => return 0,
        };
        let mut names: Vec<String> = sim
            .sessions
            .keys()
            .filter_map(|s| c.peers.get_state(&PeerIndex::new(*s)))
            .map(|st| {
                let s = format!("{}", st);
                s.split(' ').next().unwrap_or("").to_string()
            })
            .collect();
        names.sort();
        let pending = c.storage.get_earliest_matched_blocks().is_some();
        let nscripts = c.storage.get_filter_scripts().len().min(3);
        let (_, tip) = c.storage.get_last_state();
        let tip_n: u64 = tip.raw().number().unpack();
        let mf = c.storage.get_min_filtered_block_number();
        let phase = if mf >= tip_n {
            2
        } else if mf > 0 {
            1
        } else {
            0
        };
        let cp = c.storage.get_max_check_point_index().min(3);
        let s = format!("{:?}|{}|{}|{}|{}", names, pending, nscripts, phase, cp);
        crate::entropy::hash_str(&s)
    }
}

/// Makes a message usable as a stable violation key: digits collapsed, truncated.
pub fn normalize(s: &str) -> String {
    let mut out = String::new();
    let mut last_hash = false;
    for ch in s.chars() {
        if ch.is_ascii_digit() {
            if !last_hash {
                out.push('#');
                last_hash = true;
            }
        } else if ch.is_ascii_alphanumeric() {
            out.push(ch.to_ascii_lowercase());
            last_hash = false;
        } else {
            if !out.ends_with('_') {
                out.push('_');
            }
            last_hash = false;
        }
        if out.len() >= 48 {
            break;
        }
    }
    out.trim_matches('_').to_string()
}

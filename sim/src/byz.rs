//! Deviating peers: structure-aware mutation of honest answers, crafted unsolicited
//! messages, and lying filter-hash / check-point vectors.

use ckb_network::bytes::Bytes;
use ckb_types::{packed, prelude::*};

use crate::client::Proto;
use crate::plan::{InjectSpec, MutSpec};
use crate::sim::{Kind, Sim, Tag};

pub fn mutate(
    _sim: &mut Sim,
    _p: usize,
    proto: Proto,
    data: &Bytes,
    tag: &Tag,
    _specs: &[MutSpec],
) -> Vec<(Proto, Bytes, Tag)> {
    vec![(proto, data.clone(), tag.clone())]
}

pub fn inject(_sim: &mut Sim, _p: usize, _spec: &InjectSpec) -> Vec<(Proto, Bytes, Tag)> {
    Vec::new()
}

pub fn lie_filters(_sim: &mut Sim, _p: usize, m: packed::BlockFilters) -> packed::BlockFilters {
    m
}

pub fn lie_hashes(
    _sim: &mut Sim,
    _p: usize,
    m: packed::BlockFilterHashes,
) -> (packed::BlockFilterHashes, bool) {
    (m, false)
}

pub fn lie_check_points(
    _sim: &mut Sim,
    _p: usize,
    m: packed::BlockFilterCheckPoints,
) -> (packed::BlockFilterCheckPoints, bool) {
    (m, false)
}

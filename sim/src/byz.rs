//! Deviating peers: structure-aware mutation of honest answers, crafted unsolicited
//! messages, and lying filter-hash / check-point vectors.

use ckb_network::bytes::Bytes;
use ckb_types::{
    core::{BlockBuilder, EpochNumberWithFraction, HeaderView},
    packed::{self, Byte32},
    prelude::*,
    U256,
};

use crate::client::Proto;
use crate::entropy::{mix, Rng};
use crate::plan::{InjectSpec, MutSpec};
use crate::server::{self, lc_msg, View};
use crate::sim::{Kind, Sim, Tag};

fn crafted(kind: Kind, note: &str) -> Tag {
    Tag {
        kind,
        honest: false,
        canonical: None,
        request: None,
        layout: None,
        note: note.to_string(),
    }
}

pub fn u256_max() -> U256 {
    U256::from_le_bytes(&[0xffu8; 32])
}

fn pick_u64(rng: &mut Rng) -> u64 {
    match rng.below(9) {
        0 => 0,
        1 => 1,
        2 => u32::MAX as u64,
        3 => u64::MAX,
        4 => u64::MAX - 1,
        5 => rng.below(300),
        6 => 1u64 << 63,
        7 => (u32::MAX as u64) + 1,
        _ => rng.next_u64(),
    }
}

fn pick_u256(rng: &mut Rng) -> U256 {
    match rng.below(6) {
        0 => U256::zero(),
        1 => U256::one(),
        2 => u256_max(),
        3 => &u256_max() - 1u32,
        4 => U256::from(u64::MAX),
        _ => {
            let mut b = [0u8; 32];
            rng.fill(&mut b);
            U256::from_le_bytes(&b)
        }
    }
}

fn pick_epoch(rng: &mut Rng) -> u64 {
    // raw epoch field: number(24) | index(16) | length(16)
    match rng.below(7) {
        0 => 0,
        1 => EpochNumberWithFraction::new_unchecked(rng.below(10), 5, 0).full_value(),
        2 => EpochNumberWithFraction::new_unchecked(rng.below(10), 9, 3).full_value(),
        3 => u64::MAX,
        4 => EpochNumberWithFraction::new_unchecked(0xff_ffff, 0xffff, 0xffff).full_value(),
        5 => EpochNumberWithFraction::new_unchecked(rng.below(5), 0, 1).full_value(),
        _ => EpochNumberWithFraction::new_unchecked(rng.below(50), rng.below(20), rng.range(1, 30))
            .full_value(),
    }
}

fn pick_compact(rng: &mut Rng) -> u32 {
    match rng.below(6) {
        0 => 0,
        1 => 1,
        2 => u32::MAX,
        3 => 0x2080_0000,
        4 => 0x0100_0000,
        _ => rng.next_u64() as u32,
    }
}

fn random_digest(rng: &mut Rng) -> packed::HeaderDigest {
    let mut h = [0u8; 32];
    rng.fill(&mut h);
    packed::HeaderDigest::new_builder()
        .children_hash(h.pack())
        .total_difficulty(pick_u256(rng).pack())
        .start_number(pick_u64(rng).pack())
        .end_number(pick_u64(rng).pack())
        .start_epoch(pick_epoch(rng).pack())
        .end_epoch(pick_epoch(rng).pack())
        .start_timestamp(pick_u64(rng).pack())
        .end_timestamp(pick_u64(rng).pack())
        .start_compact_target(pick_compact(rng).pack())
        .end_compact_target(pick_compact(rng).pack())
        .build()
}

/// A verifiable header that passes the early checks (dummy PoW, extension commits to the
/// supplied parent chain root, extra hash matches) but carries boundary values.
pub fn crafted_verifiable(sim: &Sim, rng: &mut Rng, parent: Option<&HeaderView>) -> packed::VerifiableHeader {
    let root = random_digest(rng);
    let ext: packed::Bytes = Bytes::from(root.calc_mmr_hash().as_slice().to_vec()).pack();
    let number = match parent {
        Some(p) => p.number().wrapping_add(1),
        None => pick_u64(rng),
    };
    let epoch = match parent {
        Some(p) if rng.chance(2, 3) => {
            let e = p.epoch();
            if e.index() + 1 >= e.length() {
                EpochNumberWithFraction::new_unchecked(e.number() + 1, 0, e.length().max(1)).full_value()
            } else {
                EpochNumberWithFraction::new_unchecked(e.number(), e.index() + 1, e.length()).full_value()
            }
        }
        _ => pick_epoch(rng),
    };
    let parent_hash = parent.map(|p| p.hash()).unwrap_or_else(|| {
        let mut h = [0u8; 32];
        rng.fill(&mut h);
        h.pack()
    });
    let header = raw_header(
        number,
        epoch,
        pick_compact(rng),
        crate::sim::abs_now(sim.now),
        parent_hash,
        &ext,
    );
    packed::VerifiableHeader::new_builder()
        .header(header)
        .uncles_hash(Byte32::zero())
        .extension(packed::BytesOpt::new_builder().set(Some(ext)).build())
        .parent_chain_root(root)
        .build()
}

/// A header assembled from raw fields (the view builders refuse malformed epochs).
pub fn raw_header(
    number: u64,
    epoch: u64,
    compact: u32,
    timestamp: u64,
    parent_hash: Byte32,
    extension: &packed::Bytes,
) -> packed::Header {
    let extra = ckb_types::core::ExtraHashView::new(
        Byte32::zero(),
        Some(extension.calc_raw_data_hash()),
    )
    .extra_hash();
    let raw = packed::RawHeader::new_builder()
        .compact_target(compact.pack())
        .timestamp(timestamp.pack())
        .number(number.pack())
        .epoch(epoch.pack())
        .parent_hash(parent_hash)
        .extra_hash(extra)
        .build();
    packed::Header::new_builder().raw(raw).build()
}

fn flip_bytes(rng: &mut Rng, data: &Bytes) -> Bytes {
    let mut v = data.to_vec();
    match rng.below(5) {
        0 => {
            // truncate
            let n = rng.usize_below(v.len() + 1);
            v.truncate(n);
        }
        1 => {
            // extend
            let n = rng.range(1, 40) as usize;
            let mut e = vec![0u8; n];
            rng.fill(&mut e);
            v.extend_from_slice(&e);
        }
        2 => {
            // flip a few bytes
            for _ in 0..rng.range(1, 4) {
                if !v.is_empty() {
                    let i = rng.usize_below(v.len());
                    v[i] ^= 1 << rng.below(8);
                }
            }
        }
        3 => {
            // overwrite a 4-byte little-endian length / offset field
            if v.len() >= 8 {
                let i = (rng.usize_below(v.len() / 4)) * 4;
                let val: u32 = match rng.below(4) {
                    0 => 0,
                    1 => u32::MAX,
                    2 => v.len() as u32,
                    _ => rng.next_u64() as u32,
                };
                v[i..i + 4].copy_from_slice(&val.to_le_bytes());
            }
        }
        _ => {
            // set an 8-byte field to an extreme
            if v.len() >= 16 {
                let i = rng.usize_below(v.len() - 8);
                let val = pick_u64(rng);
                v[i..i + 8].copy_from_slice(&val.to_le_bytes());
            }
        }
    }
    Bytes::from(v)
}

/// An honest message of a random kind, as it would look for the current state of the world.
fn honest_sample(sim: &Sim, p: usize, rng: &mut Rng) -> (Proto, Bytes, Kind) {
    let view = sim.peers[p].view;
    let cfg = sim.peer_cfg(p);
    let (mf, tipn) = match sim.client.as_ref() {
        Some(c) => {
            let (_, tip) = c.storage.get_last_state();
            (
                c.storage.get_min_filtered_block_number(),
                Unpack::<u64>::unpack(&tip.raw().number()),
            )
        }
        None => (0, 0),
    };
    match rng.below(8) {
        0 => (
            Proto::LightClient,
            lc_msg(server::send_last_state(&sim.world, view)).as_bytes(),
            Kind::SendLastState,
        ),
        1 => {
            // a proof for a synthetic request
            let start = rng.below(view.height.max(1));
            let req = packed::GetLastStateProof::new_builder()
                .last_hash(sim.world.block(view.branch, view.height).hash())
                .start_hash(sim.world.block(view.branch, start).hash())
                .start_number(start.pack())
                .last_n_blocks(sim.plan.knobs.last_n.pack())
                .difficulty_boundary(sim.world.td(view.branch, view.height.saturating_sub(1)).pack())
                .build();
            match server::last_state_proof(&sim.world, view, &req) {
                server::ProofAnswer::Reply(m, _) => {
                    (Proto::LightClient, lc_msg(m).as_bytes(), Kind::SendLastStateProof)
                }
                _ => (
                    Proto::LightClient,
                    lc_msg(server::send_last_state(&sim.world, view)).as_bytes(),
                    Kind::SendLastState,
                ),
            }
        }
        2 => {
            let start = if rng.chance(2, 3) { mf + 1 } else { rng.below(view.height + 2) };
            match server::block_filters(&sim.world, view, &cfg, start) {
                Some(m) => (Proto::Filter, server::filter_msg(m).as_bytes(), Kind::BlockFilters),
                None => (Proto::Filter, Bytes::new(), Kind::BlockFilters),
            }
        }
        3 => {
            let start = rng.below(view.height + 2);
            match server::block_filter_hashes(&sim.world, view, &cfg, start) {
                Some(m) => (Proto::Filter, server::filter_msg(m).as_bytes(), Kind::BlockFilterHashes),
                None => (Proto::Filter, Bytes::new(), Kind::BlockFilterHashes),
            }
        }
        4 => {
            let i = sim.plan.knobs.check_point_interval;
            let start = rng.below(view.height / i.max(1) + 2) * i;
            match server::block_filter_check_points(&sim.world, view, &cfg, start) {
                Some(m) => (
                    Proto::Filter,
                    server::filter_msg(m).as_bytes(),
                    Kind::BlockFilterCheckPoints,
                ),
                None => (Proto::Filter, Bytes::new(), Kind::BlockFilterCheckPoints),
            }
        }
        5 => {
            let n = rng.below(view.height + 1);
            let m = server::send_block(&sim.world, &sim.world.block(view.branch, n).hash()).unwrap();
            (Proto::Sync, m.as_bytes(), Kind::SendBlock)
        }
        6 => {
            let n = rng.below(view.height.max(1));
            let req = packed::GetBlocksProof::new_builder()
                .last_hash(sim.world.block(view.branch, tipn.min(view.height)).hash())
                .block_hashes(vec![sim.world.block(view.branch, n).hash()].pack())
                .build();
            match server::blocks_proof(&sim.world, view, &req, rng.chance(1, 2)) {
                server::LcAnswer::Reply(m) => (Proto::LightClient, m.as_bytes(), Kind::SendBlocksProof),
                _ => (Proto::LightClient, Bytes::new(), Kind::SendBlocksProof),
            }
        }
        _ => {
            let req = packed::GetTransactionsProof::new_builder()
                .last_hash(sim.world.block(view.branch, tipn.min(view.height)).hash())
                .tx_hashes(
                    vec![sim.world.block(view.branch, rng.below(view.height + 1)).view.transactions()[0].hash()]
                        .pack(),
                )
                .build();
            match server::transactions_proof(&sim.world, view, &req, rng.chance(1, 2)) {
                server::LcAnswer::Reply(m) => {
                    (Proto::LightClient, m.as_bytes(), Kind::SendTransactionsProof)
                }
                _ => (Proto::LightClient, Bytes::new(), Kind::SendTransactionsProof),
            }
        }
    }
}

/// The next batch of authentic block filters, pushed unasked, in which the hash of one block is
/// replaced by the hash of a side-branch block (the hashes in BlockFilters are not committed by
/// the filter hashes). If that position matches a registered script, the planted hash ends up
/// in the matched-blocks record next to real ones.
fn plant_side_branch_block(sim: &mut Sim, p: usize, rng: &mut Rng, announce: bool) -> Vec<(Proto, Bytes, Tag)> {
    let mut out = Vec::new();
    let c = match sim.client.as_ref() {
        Some(c) => c,
        None => return out,
    };
    let view = sim.peers[p].view;
    if sim.world.branches.len() < 2 {
        return out;
    }
    let side = (view.branch + 1) % sim.world.branches.len();
    let mf = c.storage.get_min_filtered_block_number();
    let cfg = sim.peer_cfg(p);
    let m = match server::block_filters(&sim.world, view, &cfg, mf + 1) {
        Some(m) => m,
        None => return out,
    };
    let mut hashes: Vec<Byte32> = m.block_hashes().into_iter().collect();
    if hashes.is_empty() {
        return out;
    }
    let i = rng.usize_below(hashes.len());
    let n = mf + 1 + i as u64;
    // the side-branch block of that height if there is one, otherwise the side tip
    let planted = match sim.world.block_opt(side, n) {
        Some(b) if !announce && sim.world.block_opt(view.branch, n).map(|x| x.hash()) != Some(b.hash()) => b.hash(),
        _ => sim.world.block(side, sim.world.tip_number(side)).hash(),
    };
    if sim.world.number_on_branch(view.branch, &planted, view.height).is_some() {
        return out; // not a side-branch block after all
    }
    if announce {
        // the peer first announces that block as its last state (recorded, never proven) ...
        let tip = sim.world.block(side, sim.world.tip_number(side)).verifiable();
        let m = lc_msg(packed::SendLastState::new_builder().last_header(tip).build());
        out.push((Proto::LightClient, m.as_bytes(), crafted(Kind::SendLastState, "side-branch tip announced as last state")));
        sim.stat("fault.byz.side_branch_tip_announced");
    }
    hashes[i] = planted.clone();
    sim.peers[p].planted.push(planted);
    let m2 = m.as_builder().block_hashes(hashes.pack()).build();
    out.push((
        Proto::Filter,
        server::filter_msg(m2).as_bytes(),
        crafted(Kind::BlockFilters, "pushed authentic filters with the hash of a side-branch block planted"),
    ));
    sim.stat("fault.byz.planted_side_branch_block_hash");
    out
}

/// A proven peer pushes (unasked) made-up filter hashes for the part of the current check-point
/// interval that the client has not cached yet - stopping short of the next check point, where
/// they would be compared with the finalized value - and then pushes block filters that are
/// consistent with them: the filters of the neighbouring blocks instead of the blocks' own.
fn poison_cached_hashes(sim: &mut Sim, p: usize) -> Vec<(Proto, Bytes, Tag)> {
    let mut out = Vec::new();
    let c = match sim.client.as_ref() {
        Some(c) => c,
        None => return out,
    };
    let interval = sim.plan.knobs.check_point_interval.max(1);
    let branch = sim.peers[p].view.branch;
    let height = sim.peers[p].view.height;
    let mf = c.storage.get_min_filtered_block_number();
    let finalized = c.storage.get_last_check_point().0 as u64 * interval;
    let (cp_idx, cached) = c.peers.get_cached_block_filter_hashes();
    let cp_number = cp_idx as u64 * interval;
    let next_cp = cp_number + interval;
    let cached_last = cp_number + cached.len() as u64;
    let start_h = cached_last + 1;
    let end = (next_cp - 1).min(height);
    if !(mf + 1 <= finalized && cp_number < mf + 1 && mf + 1 <= next_cp) || start_h > end || start_h < 2 {
        return out;
    }
    let parent: Byte32 = match cached.last() {
        Some(h) => h.clone(),
        None => sim.world.block(branch, cp_number).filter_hash.clone(),
    };
    let tampered = |n: u64| sim.world.block(branch, n - 1).filter.clone();
    let mut hashes: Vec<Byte32> = Vec::new();
    let mut h = parent.clone();
    for n in start_h..=end {
        h = ckb_types::utilities::calc_filter_hash(&h, &tampered(n)).pack();
        hashes.push(h.clone());
    }
    let m1 = packed::BlockFilterHashes::new_builder()
        .start_number(start_h.pack())
        .parent_block_filter_hash(parent)
        .block_filter_hashes(hashes.pack())
        .build();
    out.push((
        Proto::Filter,
        server::filter_msg(m1).as_bytes(),
        crafted(Kind::BlockFilterHashes, "pushed made-up filter hashes that stop short of the next check point"),
    ));
    let from = mf + 1;
    if from <= end {
        let numbers: Vec<u64> = (from..=end).collect();
        let m2 = packed::BlockFilters::new_builder()
            .start_number(from.pack())
            .block_hashes(numbers.iter().map(|n| sim.world.block(branch, *n).hash()).collect::<Vec<_>>().pack())
            .filters(
                numbers
                    .iter()
                    .map(|n| if *n >= start_h { tampered(*n) } else { sim.world.block(branch, *n).filter.clone() })
                    .collect::<Vec<_>>()
                    .pack(),
            )
            .build();
        out.push((
            Proto::Filter,
            server::filter_msg(m2).as_bytes(),
            crafted(Kind::BlockFilters, "pushed block filters consistent with the made-up hashes"),
        ));
    }
    sim.stat("fault.byz.poisoned_cached_filter_hashes");
    out
}

fn random_hashes(rng: &mut Rng, n: usize) -> Vec<Byte32> {
    (0..n)
        .map(|_| {
            let mut h = [0u8; 32];
            rng.fill(&mut h);
            h.pack()
        })
        .collect()
}

/// Crafted / hostile messages (C10): chosen by `spec.kind`, all entropy from `spec.seed`.
pub fn inject(sim: &mut Sim, p: usize, spec: &InjectSpec) -> Vec<(Proto, Bytes, Tag)> {
    let mut rng = Rng::new(mix(&[spec.seed, spec.kind as u64, 0x10]));
    let mut out = Vec::new();
    let (mf, fin_cp) = match sim.client.as_ref() {
        Some(c) => (
            c.storage.get_min_filtered_block_number(),
            c.storage.get_max_check_point_index() as u64,
        ),
        None => (0, 0),
    };
    let interval = sim.plan.knobs.check_point_interval;
    if spec.kind == 100 {
        return poison_cached_hashes(sim, p);
    }
    if spec.kind == 101 {
        return plant_side_branch_block(sim, p, &mut rng, false);
    }
    if spec.kind == 104 {
        // ... and then plants exactly that block in a filters answer
        return plant_side_branch_block(sim, p, &mut rng, true);
    }
    if spec.kind == 105 {
        // genuine block filter hashes, unasked, starting at boundary positions of the client's
        // own bookkeeping (around check points and the filtered number), in boundary lengths
        let view = sim.peers[p].view;
        let iv = interval.max(1);
        for _ in 0..rng.range(1, 3) {
            let cp = (fin_cp + rng.below(3)).saturating_sub(1);
            let start = match rng.below(4) {
                0 => mf + rng.below(3),
                _ => (cp * iv + rng.below(3)).max(1),
            };
            let mut cfg = sim.peer_cfg(p);
            cfg.hashes_batch = *rng.pick(&[1u64, iv.saturating_sub(1).max(1), iv, iv + 1, 2 * iv, 2000]);
            if let Some(m) = server::block_filter_hashes(&sim.world, view, &cfg, start) {
                out.push((
                    Proto::Filter,
                    server::filter_msg(m).as_bytes(),
                    crafted(Kind::BlockFilterHashes, "genuine block filter hashes, unasked, from a boundary start number"),
                ));
                sim.stat("fault.byz.unasked_hashes_from_a_boundary_start");
            }
        }
        return out;
    }
    if spec.kind == 103 {
        if let Some(hash) = plant_header(sim, p, &mut rng) {
            sim.stat("fault.byz.planted_boundary_header");
            let _ = crate::user::rpc(sim, "fetch_header", serde_json::json!([crate::user::h256_json(&hash)]));
        }
        return out;
    }
    if spec.kind == 102 {
        // push the bodies of the planted blocks (self-consistent real blocks nobody proved)
        for h in sim.peers[p].planted.clone() {
            if let Some(m) = server::send_block(&sim.world, &h) {
                out.push((Proto::Sync, m.as_bytes(), crafted(Kind::SendBlock, "pushed body of a planted side-branch block")));
            }
        }
        return out;
    }
    match spec.kind % 8 {
        0 => {
            // random bytes on a random protocol
            let n = rng.range(0, 120) as usize;
            let mut v = vec![0u8; n];
            rng.fill(&mut v);
            let proto = *rng.pick(&[Proto::LightClient, Proto::Filter, Proto::Sync, Proto::RelayV2, Proto::RelayV3]);
            out.push((proto, Bytes::from(v), crafted(Kind::Injected, "random bytes")));
        }
        1 => {
            // byte-level damage of an honest message
            let (proto, data, kind) = honest_sample(sim, p, &mut rng);
            let d = flip_bytes(&mut rng, &data);
            out.push((proto, d, crafted(kind, "damaged honest message")));
        }
        2 => {
            // an honest message delivered out of context (nobody asked)
            let (proto, data, kind) = honest_sample(sim, p, &mut rng);
            let mut t = crafted(kind, "unsolicited honest message");
            t.canonical = Some(data.clone());
            out.push((proto, data, t));
        }
        3 => {
            // a self-consistent last state with boundary values
            let vh = crafted_verifiable(sim, &mut rng, None);
            sim.peers[p].fake_tip = Some(vh.clone());
            let m = lc_msg(packed::SendLastState::new_builder().last_header(vh).build());
            out.push((Proto::LightClient, m.as_bytes(), crafted(Kind::SendLastState, "crafted last state")));
        }
        4 => {
            // filter-protocol messages aligned with the client's progress, extreme numbers
            let start = match rng.below(5) {
                0 => mf + 1,
                1 => mf,
                2 => u64::MAX,
                3 => interval * fin_cp + rng.below(3),
                _ => pick_u64(&mut rng),
            };
            let n = rng.range(0, 6) as usize;
            let m = match rng.below(3) {
                0 => {
                    let nf = if rng.chance(3, 4) { n } else { rng.range(0, 6) as usize };
                    let filters: Vec<packed::Bytes> = (0..nf)
                        .map(|_| {
                            let mut d = vec![0u8; rng.range(0, 24) as usize];
                            rng.fill(&mut d);
                            Bytes::from(d).pack()
                        })
                        .collect();
                    server::filter_msg(
                        packed::BlockFilters::new_builder()
                            .start_number(start.pack())
                            .block_hashes(random_hashes(&mut rng, n).pack())
                            .filters(filters.pack())
                            .build(),
                    )
                }
                1 => server::filter_msg(
                    packed::BlockFilterHashes::new_builder()
                        .start_number(start.pack())
                        .parent_block_filter_hash(random_hashes(&mut rng, 1)[0].clone())
                        .block_filter_hashes(random_hashes(&mut rng, n).pack())
                        .build(),
                ),
                _ => server::filter_msg(
                    packed::BlockFilterCheckPoints::new_builder()
                        .start_number(start.pack())
                        .block_filter_hashes(random_hashes(&mut rng, n).pack())
                        .build(),
                ),
            };
            out.push((Proto::Filter, m.as_bytes(), crafted(Kind::Injected, "crafted filter message")));
        }
        5 => {
            // true filters / hashes of the chain, but pushed at the client's exact position
            let view = sim.peers[p].view;
            let cfg = sim.peer_cfg(p);
            let start = mf + 1;
            if rng.chance(1, 2) {
                if let Some(m) = server::block_filters(&sim.world, view, &cfg, start) {
                    out.push((
                        Proto::Filter,
                        server::filter_msg(m).as_bytes(),
                        crafted(Kind::BlockFilters, "pushed filters at min_filtered+1"),
                    ));
                }
            } else {
                let s2 = rng.below(view.height + 2);
                if let Some(m) = server::block_filter_hashes(&sim.world, view, &cfg, s2) {
                    out.push((
                        Proto::Filter,
                        server::filter_msg(m).as_bytes(),
                        crafted(Kind::BlockFilterHashes, "pushed filter hashes"),
                    ));
                }
            }
        }
        6 => {
            // proofs with crafted headers / digests
            let vh = crafted_verifiable(sim, &mut rng, None);
            let n = rng.range(0, 3) as usize;
            let headers: Vec<packed::VerifiableHeader> =
                (0..n).map(|_| crafted_verifiable(sim, &mut rng, None)).collect();
            let proof: Vec<packed::HeaderDigest> = (0..rng.range(0, 3)).map(|_| random_digest(&mut rng)).collect();
            let m = match rng.below(3) {
                0 => lc_msg(
                    packed::SendLastStateProof::new_builder()
                        .last_header(vh)
                        .proof(proof.pack())
                        .headers(headers.pack())
                        .build(),
                ),
                1 => lc_msg(
                    packed::SendBlocksProof::new_builder()
                        .last_header(vh)
                        .proof(proof.pack())
                        .headers(headers.iter().map(|h| h.header()).collect::<Vec<_>>().pack())
                        .missing_block_hashes({ let k = rng.range(0, 2) as usize; random_hashes(&mut rng, k) }.pack())
                        .build(),
                ),
                _ => lc_msg(
                    packed::SendTransactionsProof::new_builder()
                        .last_header(vh)
                        .proof(proof.pack())
                        .missing_tx_hashes({ let k = rng.range(0, 2) as usize; random_hashes(&mut rng, k) }.pack())
                        .build(),
                ),
            };
            out.push((Proto::LightClient, m.as_bytes(), crafted(Kind::Injected, "crafted proof")));
        }
        _ => {
            // relay / sync messages the client is not supposed to get
            let m = match rng.below(3) {
                0 => packed::RelayMessage::new_builder()
                    .set(
                        packed::GetRelayTransactions::new_builder()
                            .tx_hashes({ let k = rng.range(0, 3) as usize; random_hashes(&mut rng, k) }.pack())
                            .build(),
                    )
                    .build()
                    .as_bytes(),
                1 => packed::SyncMessage::new_builder()
                    .set(packed::InIBD::new_builder().build())
                    .build()
                    .as_bytes(),
                _ => packed::SyncMessage::new_builder()
                    .set(
                        packed::GetBlocks::new_builder()
                            .block_hashes(random_hashes(&mut rng, 2).pack())
                            .build(),
                    )
                    .build()
                    .as_bytes(),
            };
            let proto = if rng.chance(1, 2) { Proto::Sync } else { *rng.pick(&[Proto::RelayV2, Proto::RelayV3]) };
            out.push((proto, m, crafted(Kind::Injected, "foreign protocol message")));
        }
    }
    out
}

/// A deviating peer answers the client's own GetLastStateProof for a header it made up.
pub fn crafted_proof_answer(
    sim: &mut Sim,
    p: usize,
    req: &packed::GetLastStateProof,
) -> Option<(packed::LightClientMessage, Tag)> {
    let last = sim.peers[p].fake_tip.clone()?;
    if last.header().calc_header_hash() != req.last_hash() {
        return None;
    }
    if let Some(real) = sim.peers[p].fake_tip_real {
        // the honest proof of the real block, presented for its unmined copy
        let real_req = req.clone().as_builder().last_hash(sim.world.block(real.branch, real.height).hash()).build();
        if let server::ProofAnswer::Reply(m, _) = server::last_state_proof(&sim.world, real, &real_req) {
            if !m.headers().is_empty() || !m.proof().is_empty() || real.height <= 1 {
                let m = m.as_builder().last_header(last).build();
                return Some((lc_msg(m), crafted(Kind::SendLastStateProof, "honest proof of the real block presented for its unmined copy")));
            }
        }
        return None;
    }
    let mut rng = Rng::new(mix(&[sim.plan.seed, sim.seq, 0xfa4e]));
    let start: u64 = req.start_number().unpack();
    // a few shapes: headers around the requested start, strictly increasing numbers or not
    let n = rng.range(0, 5) as usize;
    let mut headers = Vec::new();
    let mut num = match rng.below(3) {
        0 => start,
        1 => start.saturating_sub(rng.below(4)),
        _ => pick_u64(&mut rng),
    };
    for _ in 0..n {
        let mut vh = crafted_verifiable(sim, &mut rng, None);
        // force the number
        let hv = vh.header();
        let h2 = raw_header(
            num,
            hv.raw().epoch().unpack(),
            hv.raw().compact_target().unpack(),
            hv.raw().timestamp().unpack(),
            hv.raw().parent_hash(),
            &vh.extension().to_opt().unwrap(),
        );
        vh = vh.as_builder().header(h2).build();
        headers.push(vh);
        num = if rng.chance(4, 5) { num.wrapping_add(1) } else { pick_u64(&mut rng) };
    }
    let proof: Vec<packed::HeaderDigest> = (0..rng.range(0, 3)).map(|_| random_digest(&mut rng)).collect();
    let m = lc_msg(
        packed::SendLastStateProof::new_builder()
            .last_header(last)
            .proof(proof.pack())
            .headers(headers.pack())
            .build(),
    );
    Some((m, crafted(Kind::SendLastStateProof, "crafted proof for a made-up tip")))
}

fn rebuild_header(h: &packed::Header, rng: &mut Rng) -> packed::Header {
    // alter one raw field
    let raw = h.raw();
    let b = raw.clone().as_builder();
    let n: u64 = raw.number().unpack();
    let raw2 = match rng.below(9) {
        0 => b.number((n.wrapping_add(1)).pack()).build(),
        1 => b.number((n.wrapping_sub(1)).pack()).build(),
        2 => b.epoch(pick_epoch(rng).pack()).build(),
        3 => {
            let c: u32 = raw.compact_target().unpack();
            b.compact_target((c ^ (1 << rng.below(24))).pack()).build()
        }
        4 => {
            let t: u64 = raw.timestamp().unpack();
            b.timestamp((t + 1).pack()).build()
        }
        5 => b.parent_hash(random_hashes(rng, 1)[0].clone()).build(),
        6 => b.transactions_root(random_hashes(rng, 1)[0].clone()).build(),
        7 => b.extra_hash(random_hashes(rng, 1)[0].clone()).build(),
        _ => b.dao(random_hashes(rng, 1)[0].clone()).build(),
    };
    if rng.chance(1, 8) {
        let nonce: u128 = h.nonce().unpack();
        return h.clone().as_builder().nonce((nonce ^ 1).pack()).build();
    }
    h.clone().as_builder().raw(raw2).build()
}

fn alter_digest(d: &packed::HeaderDigest, rng: &mut Rng) -> packed::HeaderDigest {
    let b = d.clone().as_builder();
    match rng.below(5) {
        0 => {
            let td: U256 = d.total_difficulty().unpack();
            b.total_difficulty((td.checked_add(&U256::one()).unwrap_or_else(U256::zero)).pack()).build()
        }
        1 => {
            let td: U256 = d.total_difficulty().unpack();
            b.total_difficulty(td.checked_sub(&U256::one()).unwrap_or_else(U256::one).pack()).build()
        }
        2 => {
            let n: u64 = d.end_number().unpack();
            b.end_number(n.wrapping_add(1).pack()).build()
        }
        3 => {
            let n: u64 = d.start_number().unpack();
            b.start_number(n.wrapping_add(1).pack()).build()
        }
        _ => b.children_hash(random_hashes(rng, 1)[0].clone()).build(),
    }
}

fn mutate_verifiable(sim: &Sim, v: &packed::VerifiableHeader, rng: &mut Rng) -> packed::VerifiableHeader {
    match rng.below(6) {
        0 | 1 => v.clone().as_builder().header(rebuild_header(&v.header(), rng)).build(),
        2 => v.clone().as_builder().uncles_hash(random_hashes(rng, 1)[0].clone()).build(),
        3 => {
            let mut e = v.extension().to_opt().map(|e| e.raw_data().to_vec()).unwrap_or_default();
            if e.is_empty() {
                e.push(1);
            } else {
                let i = rng.usize_below(e.len());
                e[i] ^= 1;
            }
            v.clone()
                .as_builder()
                .extension(packed::BytesOpt::new_builder().set(Some(Bytes::from(e).pack())).build())
                .build()
        }
        4 => v
            .clone()
            .as_builder()
            .parent_chain_root(alter_digest(&v.parent_chain_root(), rng))
            .build(),
        _ => crafted_verifiable(sim, rng, None),
    }
}

/// The requested last header, but with the chain root - and with it all headers and the MMR
/// proof - of a side branch whose block of that height carries the same total difficulty (the
/// request / response match only compares the total difficulty of the root).
fn stale_branch_answer(
    sim: &Sim,
    p: usize,
    m: &packed::SendLastStateProof,
    request: Option<&Bytes>,
    op: u32,
    rng: &mut Rng,
) -> Option<(packed::SendLastStateProof, String)> {
    if op % 14 != 12 || sim.world.branches.len() < 2 || !rng.chance(2, 3) {
        return None;
    }
    let view = sim.peers[p].view;
    let req = match packed::LightClientMessageReader::from_compatible_slice(request?).ok()?.to_enum() {
        packed::LightClientMessageUnionReader::GetLastStateProof(r) => r.to_entity(),
        _ => return None,
    };
    let last_number = sim.world.number_on_branch(view.branch, &req.last_hash(), view.height)?;
    for ob in 0..sim.world.branches.len() {
        if ob == view.branch {
            continue;
        }
        let other = match sim.world.block_opt(ob, last_number) {
            Some(b) => b,
            None => continue,
        };
        if other.hash() == req.last_hash() || other.td != sim.world.td(view.branch, last_number) {
            continue;
        }
        let req2 = req.clone().as_builder().last_hash(other.hash()).build();
        if let server::ProofAnswer::Reply(m2, _) =
            server::last_state_proof(&sim.world, View { branch: ob, height: last_number }, &req2)
        {
            let last = m
                .last_header()
                .as_builder()
                .parent_chain_root(m2.last_header().parent_chain_root())
                .build();
            return Some((
                m2.as_builder().last_header(last).build(),
                format!("requested last header with the chain root, headers and proof of branch {} (same total difficulty)", ob),
            ));
        }
    }
    None
}

fn mutate_last_state_proof(
    sim: &Sim,
    p: usize,
    m: &packed::SendLastStateProof,
    layout: Option<&server::ProofLayout>,
    op: u32,
    rng: &mut Rng,
) -> (packed::SendLastStateProof, String) {
    let view = sim.peers[p].view;
    let mut headers: Vec<packed::VerifiableHeader> = m.headers().into_iter().collect();
    let mut proof: Vec<packed::HeaderDigest> = m.proof().into_iter().collect();
    let mut last = m.last_header();
    let (nr, ns) = layout.map(|l| (l.reorg.len(), l.sampled.len())).unwrap_or((0, 0));
    let mut note = String::new();
    match op % 14 {
        0 if !headers.is_empty() => {
            let i = rng.usize_below(headers.len());
            headers.remove(i);
            note = format!("drop header {}", i);
        }
        1 if !headers.is_empty() => {
            let i = rng.usize_below(headers.len());
            let h = headers[i].clone();
            headers.insert(i, h);
            note = format!("duplicate header {}", i);
        }
        2 if headers.len() >= 2 => {
            let i = rng.usize_below(headers.len() - 1);
            headers.swap(i, i + 1);
            note = format!("swap headers {} and {}", i, i + 1);
        }
        3 if !headers.is_empty() => {
            // the header of another block number of the same chain
            let i = rng.usize_below(headers.len());
            let n = rng.below(view.height + 1);
            headers[i] = sim.world.block(view.branch, n).verifiable();
            note = format!("header {} replaced by block #{}", i, n);
        }
        4 if !headers.is_empty() => {
            // (with a reorg section: half of the time one of its headers)
            let i = if nr > 0 && rng.chance(1, 2) { rng.usize_below(nr) } else { rng.usize_below(headers.len()) };
            headers[i] = mutate_verifiable(sim, &headers[i], rng);
            note = format!("header {} altered", i);
        }
        5 if !proof.is_empty() => {
            let i = rng.usize_below(proof.len());
            match rng.below(4) {
                0 => {
                    proof.remove(i);
                    note = format!("drop proof item {}", i);
                }
                1 => {
                    let d = proof[i].clone();
                    proof.insert(i, d);
                    note = format!("duplicate proof item {}", i);
                }
                2 => {
                    proof[i] = alter_digest(&proof[i], rng);
                    note = format!("alter proof item {}", i);
                }
                _ => {
                    proof.push(random_digest(rng));
                    note = "append proof item".into();
                }
            }
        }
        6 if nr > 0 => {
            // remove (part of) the reorg section
            let k = if rng.chance(1, 2) { nr } else { rng.range(1, nr as u64) as usize };
            headers.drain(..k);
            note = format!("remove {} reorg headers", k);
        }
        7 if headers.len() > nr + ns => {
            // shorten the last-N section at its beginning (drops the boundary block) or end
            if rng.chance(1, 2) {
                headers.remove(nr + ns);
                note = "drop the first last-N header (boundary block)".into();
            } else {
                headers.pop();
                note = "drop the last last-N header".into();
            }
        }
        8 if ns > 0 => {
            // drop / replace a sampled header
            let i = nr + rng.usize_below(ns);
            if rng.chance(1, 2) {
                headers.remove(i);
                note = format!("drop sampled header {}", i);
            } else {
                let n: u64 = headers[i].header().raw().number().unpack();
                let alt = if n > 1 { n - 1 } else { n + 1 };
                headers[i] = sim.world.block(view.branch, alt.min(view.height)).verifiable();
                note = format!("sampled header {} replaced by its neighbour", i);
            }
        }
        9 => {
            last = mutate_verifiable(sim, &last, rng);
            note = "alter last header".into();
        }
        10 => {
            // prepend an extra (real) header
            let n = rng.below(view.height + 1);
            headers.insert(0, sim.world.block(view.branch, n).verifiable());
            note = format!("prepend block #{}", n);
        }
        11 if !headers.is_empty() => {
            // total difficulty of one header's parent root
            let i = if nr > 0 && rng.chance(1, 2) { rng.usize_below(nr) } else { rng.usize_below(headers.len()) };
            let root = alter_digest(&headers[i].parent_chain_root(), rng);
            headers[i] = headers[i].clone().as_builder().parent_chain_root(root).build();
            note = format!("alter parent chain root of header {}", i);
        }
        12 => {
            // a header from a sibling branch, if there is one
            if sim.world.branches.len() > 1 && !headers.is_empty() {
                let ob = (view.branch + 1) % sim.world.branches.len();
                let i = rng.usize_below(headers.len());
                let n: u64 = headers[i].header().raw().number().unpack();
                if let Some(b) = sim.world.block_opt(ob, n) {
                    headers[i] = b.verifiable();
                    note = format!("header {} replaced by its sibling on branch {}", i, ob);
                }
            }
        }
        13 if nr >= 2 => {
            if rng.chance(1, 3) {
                // nothing but the reorg section
                headers.truncate(nr);
                note = "reorg section only".into();
            } else {
                // a hole inside the reorg section, padded at the front to keep the count
                let i = if rng.chance(1, 2) { nr - 2 } else { rng.usize_below(nr - 1) };
                let first: u64 = headers[0].header().raw().number().unpack();
                headers.remove(i);
                if first > 1 {
                    headers.insert(0, sim.world.block(view.branch, first - 1).verifiable());
                }
                note = format!("hole in the reorg section at position {}", i);
            }
        }
        _ => {}
    }
    // A deviating peer that knows the protocol proves what it sends: when every header of the
    // altered answer is still a real block below the last one, the MMR proof is regenerated for
    // exactly this set, so that only the structural checks stand between it and acceptance.
    if !note.is_empty() && matches!(op % 14, 0 | 3 | 6 | 7 | 8 | 10 | 13) && rng.chance(2, 3) {
        let last_number: u64 = last.header().raw().number().unpack();
        if sim.world.block_opt(view.branch, last_number).map(|b| b.hash()) == Some(last.header().calc_header_hash()) {
            let mut numbers: Vec<u64> = Vec::new();
            let mut real = true;
            for h in headers.iter() {
                let n: u64 = h.header().raw().number().unpack();
                match sim.world.block_opt(view.branch, n) {
                    Some(b) if b.verifiable().as_slice() == h.as_slice() && n < last_number => numbers.push(n),
                    _ => {
                        real = false;
                        break;
                    }
                }
            }
            if real && !numbers.is_empty() && numbers.windows(2).all(|w| w[0] < w[1]) {
                proof = sim.world.gen_proof(view.branch, last_number, &numbers);
                note.push_str(" (proof regenerated for the altered header set)");
            }
        }
    }
    let out = packed::SendLastStateProof::new_builder()
        .last_header(last)
        .proof(proof.pack())
        .headers(headers.pack())
        .build();
    (out, note)
}

fn mutate_block(sim: &Sim, m: &packed::SendBlock, op: u32, rng: &mut Rng) -> (packed::SendBlock, String) {
    let block = m.block();
    let mut txs: Vec<packed::Transaction> = block.transactions().into_iter().collect();
    let mut note = String::new();
    let b = block.clone().as_builder();
    let nb = match op % 6 {
        0 if txs.len() > 1 => {
            let i = 1 + rng.usize_below(txs.len() - 1);
            txs.remove(i);
            note = format!("same header, transaction {} removed", i);
            b.transactions(txs.pack()).build()
        }
        1 => {
            // add a transaction paying one of the registered scripts
            let lock = rng.pick(&sim.world.locks).clone();
            let tx = ckb_types::core::TransactionBuilder::default()
                .input(packed::CellInput::new(
                    packed::OutPoint::new(random_hashes(rng, 1)[0].clone(), 0),
                    0,
                ))
                .output(
                    packed::CellOutput::new_builder()
                        .capacity(ckb_types::core::Capacity::shannons(77_7777_7777).pack())
                        .lock(lock)
                        .build(),
                )
                .output_data(Bytes::new().pack())
                .build();
            txs.push(tx.data());
            note = "same header, forged transaction appended".into();
            b.transactions(txs.pack()).build()
        }
        2 if !txs.is_empty() => {
            // alter an output's lock of a transaction
            let i = rng.usize_below(txs.len());
            let tx = txs[i].clone();
            let outs: Vec<packed::CellOutput> = tx.raw().outputs().into_iter().collect();
            if !outs.is_empty() {
                let mut outs = outs;
                let j = rng.usize_below(outs.len());
                outs[j] = outs[j].clone().as_builder().lock(rng.pick(&sim.world.locks).clone()).build();
                let raw = tx.raw().as_builder().outputs(outs.pack()).build();
                txs[i] = tx.as_builder().raw(raw).build();
            }
            note = format!("same header, output of transaction {} altered", i);
            b.transactions(txs.pack()).build()
        }
        3 => {
            // the body of another block under this header
            let other = &sim.world.blocks[rng.usize_below(sim.world.blocks.len())].view;
            note = format!("same header, body of block #{}", other.number());
            b.transactions(other.data().transactions()).build()
        }
        4 => {
            note = "header altered".into();
            b.header(rebuild_header(&block.header(), rng)).build()
        }
        _ => {
            note = "extension removed".into();
            packed::Block::new_builder()
                .header(block.header())
                .transactions(block.transactions())
                .build()
        }
    };
    (m.clone().as_builder().block(nb).build(), note)
}

fn mutate_filters(sim: &Sim, p: usize, m: &packed::BlockFilters, op: u32, rng: &mut Rng) -> (packed::BlockFilters, String) {
    let view = sim.peers[p].view;
    let start: u64 = m.start_number().unpack();
    let mut hashes: Vec<Byte32> = m.block_hashes().into_iter().collect();
    let mut filters: Vec<packed::Bytes> = m.filters().into_iter().collect();
    let mut start2 = start;
    let note;
    if op == 2002 {
        // the genuine filters (and block hashes) of the blocks one check-point interval - or a
        // few blocks - lower, under the start number the client waits for
        let interval = sim.plan.knobs.check_point_interval;
        let k = if rng.chance(2, 3) { interval } else { rng.range(1, interval.max(2)) };
        if start > k {
            let cfg = sim.peer_cfg(p);
            if let Some(lower) = server::block_filters(&sim.world, view, &cfg, start - k) {
                let n = filters.len().min(lower.filters().len());
                if n > 0 {
                    let f: Vec<packed::Bytes> = lower.filters().into_iter().take(n).collect();
                    let h: Vec<Byte32> = lower.block_hashes().into_iter().take(n).collect();
                    return (
                        packed::BlockFilters::new_builder()
                            .start_number(start.pack())
                            .block_hashes(h.pack())
                            .filters(f.pack())
                            .build(),
                        format!("content of the batch {} blocks lower under the awaited start number", k),
                    );
                }
            }
        }
        return (m.clone(), String::new());
    }
    match op % 8 {
        0 if !filters.is_empty() => {
            let i = rng.usize_below(filters.len());
            let mut d = filters[i].raw_data().to_vec();
            if d.is_empty() {
                d.push(7);
            } else {
                let j = rng.usize_below(d.len());
                d[j] ^= 1 << rng.below(8);
            }
            filters[i] = Bytes::from(d).pack();
            note = format!("filter {} tampered", i);
        }
        1 => {
            start2 = if rng.chance(1, 2) { start + 1 } else { start.saturating_sub(1) };
            note = format!("start number shifted to {}", start2);
        }
        2 if !hashes.is_empty() => {
            // authentic filters, block hash of another block of the proven chain
            let i = rng.usize_below(hashes.len());
            let n = rng.below(view.height + 1);
            hashes[i] = sim.world.block(view.branch, n).hash();
            note = format!("block hash {} replaced by the hash of block #{}", i, n);
        }
        3 if !hashes.is_empty() => {
            let i = rng.usize_below(hashes.len());
            hashes[i] = random_hashes(rng, 1)[0].clone();
            note = format!("block hash {} replaced by a random hash", i);
        }
        4 if !filters.is_empty() => {
            filters.pop();
            note = "one filter missing".into();
        }
        5 => {
            hashes.push(random_hashes(rng, 1)[0].clone());
            filters.push(Bytes::from(vec![1u8, 2, 3]).pack());
            note = "extra entry".into();
        }
        6 if filters.len() >= 2 => {
            let i = rng.usize_below(filters.len() - 1);
            filters.swap(i, i + 1);
            note = format!("filters {} and {} swapped", i, i + 1);
        }
        _ => {
            // an empty filter (matches nothing) for a block
            if !filters.is_empty() {
                let i = rng.usize_below(filters.len());
                filters[i] = Bytes::new().pack();
                note = format!("filter {} emptied", i);
            } else {
                note = String::new();
            }
        }
    }
    (
        packed::BlockFilters::new_builder()
            .start_number(start2.pack())
            .block_hashes(hashes.pack())
            .filters(filters.pack())
            .build(),
        note,
    )
}

fn mutate_last_state(sim: &Sim, p: usize, m: &packed::SendLastState, op: u32, rng: &mut Rng) -> (packed::SendLastState, String) {
    let view = sim.peers[p].view;
    let tip = sim.world.block(view.branch, view.height);
    match op % 3 {
        0 => {
            // a made-up child of the real tip whose chain root commits to an inflated difficulty
            let real_root = sim.world.root_at(view.branch, view.height);
            let td: U256 = real_root.total_difficulty().unpack();
            let inflated = match rng.below(3) {
                0 => td.checked_mul(&U256::from(1000u64)).unwrap_or_else(u256_max),
                1 => &u256_max() - U256::from(1u64 << 40),
                _ => td + U256::from(rng.range(1, 1_000_000)),
            };
            let root = real_root.as_builder().total_difficulty(inflated.pack()).build();
            let ext: packed::Bytes = Bytes::from(root.calc_mmr_hash().as_slice().to_vec()).pack();
            let th = tip.header();
            let e = th.epoch();
            let epoch = if th.number() == 0 {
                EpochNumberWithFraction::new_unchecked(0, 1, 10).full_value()
            } else if e.index() + 1 >= e.length() {
                EpochNumberWithFraction::new_unchecked(e.number() + 1, 0, e.length()).full_value()
            } else {
                EpochNumberWithFraction::new_unchecked(e.number(), e.index() + 1, e.length()).full_value()
            };
            let header = raw_header(
                th.number() + 1,
                epoch,
                th.compact_target(),
                crate::sim::abs_now(sim.now),
                th.hash(),
                &ext,
            );
            let vh = packed::VerifiableHeader::new_builder()
                .header(header)
                .uncles_hash(Byte32::zero())
                .extension(packed::BytesOpt::new_builder().set(Some(ext)).build())
                .parent_chain_root(root)
                .build();
            (
                packed::SendLastState::new_builder().last_header(vh).build(),
                "forged child of the tip with an inflated parent chain root".into(),
            )
        }
        1 => (
            m.clone()
                .as_builder()
                .last_header(mutate_verifiable(sim, &m.last_header(), rng))
                .build(),
            "last header altered".into(),
        ),
        _ => (
            packed::SendLastState::new_builder()
                .last_header(crafted_verifiable(sim, rng, Some(&tip.header())))
                .build(),
            "crafted child with boundary values".into(),
        ),
    }
}

/// Applies the planned mutations of a deviating peer to one of its honest answers.
pub fn mutate(
    sim: &mut Sim,
    p: usize,
    proto: Proto,
    data: &Bytes,
    tag: &Tag,
    specs: &[MutSpec],
) -> Vec<(Proto, Bytes, Tag)> {
    let mut out = Vec::new();
    for spec in specs {
        let mut rng = Rng::new(mix(&[spec.seed, spec.op as u64, 0x3a7]));
        let mut t = tag.clone();
        t.honest = false;
        t.canonical = Some(data.clone());
        // generic operators
        match spec.op {
            1000 => {
                // duplicate delivery
                let mut t0 = tag.clone();
                t0.canonical = Some(data.clone());
                out.push((proto, data.clone(), t0.clone()));
                t0.note = "duplicate delivery".into();
                out.push((proto, data.clone(), t0));
                sim.stat("fault.byz.duplicate");
                continue;
            }
            1003 => {
                // the same answer twice, the second copy up to a few seconds later (what a
                // re-asked, slow peer produces): other events run in between
                let mut t0 = tag.clone();
                t0.canonical = Some(data.clone());
                out.push((proto, data.clone(), t0.clone()));
                t0.note = format!("late duplicate:{}", 50 + rng.below(4_000));
                out.push((proto, data.clone(), t0));
                sim.stat("fault.late_duplicate");
                continue;
            }
            1001 => {
                t.note = "dropped".into();
                sim.stat("fault.byz.drop");
                let _ = t;
                continue;
            }
            1002 => {
                t.note = "byte damage".into();
                out.push((proto, flip_bytes(&mut rng, data), t));
                sim.stat("fault.byz.byte_damage");
                continue;
            }
            _ => {}
        }
        if spec.op == 2005 && tag.kind == Kind::SendLastStateProof && sim.world.params.pow == crate::chain::PowKind::Eaglesong {
            // "my tip has changed": an empty proof naming a new last header - an unmined copy of
            // the peer's real tip (another nonce; chain root and extra hash untouched). The peer
            // then proves it like an honest node proves the real block.
            let view = sim.peers[p].view;
            let real = sim.world.block(view.branch, view.height);
            let vh = real.verifiable();
            let mut nonce: u128 = vh.header().nonce().unpack();
            let engine = ckb_pow::Pow::Eaglesong.engine();
            let mut header = vh.header();
            for _ in 0..64 {
                nonce = nonce.wrapping_add(1 + rng.next_u64() as u128);
                header = vh.header().as_builder().nonce(nonce.pack()).build();
                if !engine.verify(&header) {
                    break;
                }
            }
            if !engine.verify(&header) {
                let fake = vh.as_builder().header(header).build();
                sim.peers[p].fake_tip = Some(fake.clone());
                sim.peers[p].fake_tip_real = Some(view);
                let m = packed::SendLastStateProof::new_builder().last_header(fake).build();
                t.note = "tip changed: empty proof naming an unmined copy of the real tip".into();
                t.canonical = None;
                out.push((proto, lc_msg(m).as_bytes(), t));
                sim.stat("fault.byz.unmined_tip_in_an_empty_proof");
                continue;
            }
        }
        if spec.op == 2003 && tag.kind == Kind::BlockFilterCheckPoints {
            if let Some((m1, m2)) = overlong_check_points(sim, data, &mut rng) {
                let mut t1 = t.clone();
                t1.note = "check points continued with made-up values beyond the proven tip".into();
                out.push((proto, m1, t1));
                t.note = "unasked continuation that starts beyond the proven tip".into();
                out.push((proto, m2, t));
                sim.stat("fault.byz.overlong_check_points");
                continue;
            }
        }
        let bytes: Option<(Bytes, String)> = match tag.kind {
            _ if spec.op == 2000 => overflow_attack(data, sim.world.params.pow, &mut rng),
            _ if spec.op == 2001 => cbmt_attack(data, &mut rng),
            _ if spec.op == 2004 => same_height_twin(sim, data, &mut rng),
            Kind::SendLastStateProof => packed::LightClientMessageReader::from_compatible_slice(data)
                .ok()
                .and_then(|m| match m.to_enum() {
                    packed::LightClientMessageUnionReader::SendLastStateProof(r) => {
                        let (m2, note) = match stale_branch_answer(sim, p, &r.to_entity(), tag.request.as_ref(), spec.op, &mut rng) {
                            Some(x) => x,
                            None => mutate_last_state_proof(sim, p, &r.to_entity(), tag.layout.as_ref(), spec.op, &mut rng),
                        };
                        Some((lc_msg(m2).as_bytes(), note))
                    }
                    _ => None,
                }),
            Kind::SendLastState => packed::LightClientMessageReader::from_compatible_slice(data)
                .ok()
                .and_then(|m| match m.to_enum() {
                    packed::LightClientMessageUnionReader::SendLastState(r) => {
                        let (m2, note) = mutate_last_state(sim, p, &r.to_entity(), spec.op, &mut rng);
                        if spec.op % 3 == 0 {
                            sim.peers[p].fake_tip = Some(m2.last_header());
                        }
                        Some((lc_msg(m2).as_bytes(), note))
                    }
                    _ => None,
                }),
            Kind::SendBlock => packed::SyncMessageReader::from_compatible_slice(data)
                .ok()
                .and_then(|m| match m.to_enum() {
                    packed::SyncMessageUnionReader::SendBlock(r) => {
                        let (m2, note) = mutate_block(sim, &r.to_entity(), spec.op, &mut rng);
                        Some((packed::SyncMessage::new_builder().set(m2).build().as_bytes(), note))
                    }
                    _ => None,
                }),
            Kind::BlockFilters => packed::BlockFilterMessageReader::from_slice(data)
                .ok()
                .and_then(|m| match m.to_enum() {
                    packed::BlockFilterMessageUnionReader::BlockFilters(r) => {
                        let (m2, note) = mutate_filters(sim, p, &r.to_entity(), spec.op, &mut rng);
                        Some((server::filter_msg(m2).as_bytes(), note))
                    }
                    _ => None,
                }),
            Kind::SendBlocksProof | Kind::SendTransactionsProof if spec.op % 3 != 2 => {
                match proof_from_another_point_of_view(sim, p, data, spec.op, &mut rng) {
                    Some(x) => Some(x),
                    None => Some((flip_bytes(&mut rng, data), "byte damage".into())),
                }
            }
            _ => {
                // proofs of blocks / transactions: structured byte damage inside the message
                Some((flip_bytes(&mut rng, data), "byte damage".into()))
            }
        };
        match bytes {
            Some((b, note)) if !note.is_empty() && b != *data => {
                t.note = note;
                sim.stat(&format!("fault.byz.mutated.{}", tag.kind.name()));
                out.push((proto, b, t));
            }
            _ => {
                // the operator did not apply: deliver the honest answer
                out.push((proto, data.clone(), tag.clone()));
            }
        }
    }
    out
}

/// The deviating peer answers the blocks / transactions proof request as an honest node of
/// *another* chain state would: self-consistent headers and MMR proof, but against a last
/// header the client never named in its request (a side-fork tip, or an ancestor of the tip).
fn proof_from_another_point_of_view(
    sim: &Sim,
    p: usize,
    data: &Bytes,
    op: u32,
    rng: &mut Rng,
) -> Option<(Bytes, String)> {
    let world = &sim.world;
    let own = sim.peers[p].view;
    // candidate views: the tip of every other branch, or a lower height of the own branch
    let mut views: Vec<View> = Vec::new();
    for b in 0..world.branches.len() {
        if b != own.branch {
            views.push(View { branch: b, height: world.tip_number(b) });
        }
    }
    if views.is_empty() || op % 3 == 1 {
        if own.height >= 2 {
            views.push(View { branch: own.branch, height: rng.range(1, own.height - 1) });
        }
    }
    // ... or the own, requested point of view, but the (self-consistent, proven) answer to a
    // different question: one requested block / transaction replaced by another real one
    let substitute = op % 3 == 0 && rng.chance(1, 2);
    if views.is_empty() && !substitute {
        return None;
    }
    let m = packed::LightClientMessageReader::from_compatible_slice(data).ok()?;
    if op % 3 == 1 && rng.chance(1, 2) {
        if let Some(x) = forge_witness(&m, rng) {
            return Some(x);
        }
    }
    if substitute {
        return proof_for_another_question(sim, own, &m, rng);
    }
    let view = *rng.pick(&views);
    let last_hash = world.block(view.branch, view.height).hash();
    match m.to_enum() {
        packed::LightClientMessageUnionReader::SendBlocksProof(r) => {
            let mut hashes: Vec<Byte32> = r.headers().iter().map(|h| h.to_entity().calc_header_hash()).collect();
            hashes.extend(r.missing_block_hashes().iter().map(|h| h.to_entity()));
            blocks_pov(world, view, last_hash, hashes, r.count_extra_fields() > 0)
        }
        packed::LightClientMessageUnionReader::SendTransactionsProof(r) => {
            let mut hashes: Vec<Byte32> = Vec::new();
            for fb in r.filtered_blocks().iter() {
                hashes.extend(fb.transactions().iter().map(|t| t.to_entity().calc_tx_hash()));
            }
            hashes.extend(r.missing_tx_hashes().iter().map(|h| h.to_entity()));
            txs_pov(world, view, last_hash, hashes, r.count_extra_fields() > 0)
        }
        _ => None,
    }
}

/// The honest blocks / transactions proof plus a *second* header at the number of a delivered
/// one, for something the honest answer reports missing: a block / transaction of a side branch
/// at the same height (genuine header, genuine Merkle proof), or - for a transaction whose body
/// is known - a made-up header that copies the delivered one and commits to that transaction
/// alone. The MMR proof stays the honest one (it proves the delivered header of that number).
fn same_height_twin(sim: &Sim, data: &Bytes, rng: &mut Rng) -> Option<(Bytes, String)> {
    use ckb_types::utilities::{merkle_root, CBMT};
    let world = &sim.world;
    let m = packed::LightClientMessageReader::from_compatible_slice(data).ok()?;
    let by_hash = |h: &Byte32| world.blocks.iter().find(|b| b.hash() == *h);
    match m.to_enum() {
        packed::LightClientMessageUnionReader::SendBlocksProof(r) => {
            let v1 = r.count_extra_fields() > 0;
            let msg = r.to_entity();
            let mut headers: Vec<packed::Header> = msg.headers().into_iter().collect();
            let numbers: Vec<u64> = headers.iter().map(|h| h.raw().number().unpack()).collect();
            let mut missing: Vec<Byte32> = msg.missing_block_hashes().into_iter().collect();
            let last_number: u64 = msg.last_header().header().raw().number().unpack();
            let pos = missing
                .iter()
                .position(|h| by_hash(h).map(|b| numbers.contains(&b.number()) || b.number() == last_number).unwrap_or(false))?;
            let twin = by_hash(&missing[pos])?;
            missing.remove(pos);
            headers.push(twin.view.data().header());
            let note = format!("header of side-branch block #{} added next to the proven header of that number", twin.number());
            if v1 {
                let m1 = packed::SendBlocksProofV1Reader::from_compatible_slice(r.as_slice()).ok()?.to_entity();
                let mut uncles: Vec<Byte32> = m1.blocks_uncles_hash().into_iter().collect();
                let mut exts: Vec<packed::BytesOpt> = m1.blocks_extension().into_iter().collect();
                uncles.push(twin.view.calc_uncles_hash());
                exts.push(packed::BytesOpt::new_builder().set(twin.view.extension()).build());
                let out = m1
                    .as_builder()
                    .headers(packed::HeaderVec::new_builder().set(headers).build())
                    .missing_block_hashes(missing.pack())
                    .blocks_uncles_hash(uncles.pack())
                    .blocks_extension(packed::BytesOptVec::new_builder().set(exts).build())
                    .build();
                Some((lc_msg(out).as_bytes(), note))
            } else {
                let out = msg
                    .as_builder()
                    .headers(packed::HeaderVec::new_builder().set(headers).build())
                    .missing_block_hashes(missing.pack())
                    .build();
                Some((lc_msg(out).as_bytes(), note))
            }
        }
        packed::LightClientMessageUnionReader::SendTransactionsProof(r) => {
            let v1 = r.count_extra_fields() > 0;
            let msg = r.to_entity();
            let mut fbs: Vec<packed::FilteredBlock> = msg.filtered_blocks().into_iter().collect();
            let last = msg.last_header();
            let last_number: u64 = last.header().raw().number().unpack();
            let mut numbers: Vec<u64> = fbs.iter().map(|f| f.header().raw().number().unpack()).collect();
            numbers.push(last_number);
            let mut missing: Vec<Byte32> = msg.missing_tx_hashes().into_iter().collect();
            // (position in `missing`, block id, tx index)
            let known: Vec<(usize, usize, u32)> = missing
                .iter()
                .enumerate()
                .filter_map(|(i, h)| world.tx_locs.get(h).and_then(|l| l.first()).map(|(id, idx)| (i, *id, *idx)))
                .collect();
            if known.is_empty() {
                return None;
            }
            let genuine = known.iter().find(|(_, id, _)| numbers.contains(&world.blocks[*id].number())).cloned();
            let (twin, uncles_hash, ext, note, gone) = match genuine {
                Some((i, id, idx)) => {
                    let blk = &world.blocks[id].view;
                    let all: Vec<Byte32> = blk.transactions().iter().map(|t| t.hash()).collect();
                    let proof = CBMT::build_merkle_proof(&all, &[idx])?;
                    let fb = packed::FilteredBlock::new_builder()
                        .header(blk.data().header())
                        .witnesses_root(blk.calc_witnesses_root())
                        .transactions(vec![blk.transactions()[idx as usize].data()].pack())
                        .proof(
                            packed::MerkleProof::new_builder()
                                .indices(proof.indices().to_owned().pack())
                                .lemmas(proof.lemmas().to_owned().pack())
                                .build(),
                        )
                        .build();
                    (
                        fb,
                        blk.calc_uncles_hash(),
                        packed::BytesOpt::new_builder().set(blk.extension()).build(),
                        format!("filtered block of side-branch block #{} added next to the proven block of that number", blk.number()),
                        i,
                    )
                }
                None => {
                    // a made-up header at the number of a delivered block, committing to the
                    // transaction alone
                    let (i, id, idx) = known[rng.usize_below(known.len())];
                    let tx = world.blocks[id].view.transactions()[idx as usize].clone();
                    // (the delivered block's number, or the number of the last header itself)
                    let bi = rng.usize_below(fbs.len() + 1);
                    let real = if bi < fbs.len() { fbs[bi].header() } else { last.header() };
                    let real_block = world.blocks.iter().find(|b| b.hash() == real.calc_header_hash())?;
                    let witnesses_root = merkle_root(&[tx.witness_hash()]);
                    let root = merkle_root(&[merkle_root(&[tx.hash()]), witnesses_root.clone()]);
                    let raw = real.raw().as_builder().transactions_root(root).build();
                    let header = crate::chain::mine_header(world.params.pow, real.as_builder().raw(raw).build());
                    let proof = CBMT::build_merkle_proof(&[tx.hash()], &[0])?;
                    let fb = packed::FilteredBlock::new_builder()
                        .header(header)
                        .witnesses_root(witnesses_root)
                        .transactions(vec![tx.data()].pack())
                        .proof(
                            packed::MerkleProof::new_builder()
                                .indices(proof.indices().to_owned().pack())
                                .lemmas(proof.lemmas().to_owned().pack())
                                .build(),
                        )
                        .build();
                    (
                        fb,
                        real_block.view.calc_uncles_hash(),
                        packed::BytesOpt::new_builder().set(real_block.view.extension()).build(),
                        if bi < fbs.len() {
                            format!("made-up header at the number of delivered block {} committing to a transaction reported missing", bi)
                        } else {
                            "made-up header at the number of the last header committing to a transaction reported missing".to_string()
                        },
                        i,
                    )
                }
            };
            missing.remove(gone);
            fbs.push(twin);
            let items = packed::FilteredBlockVec::new_builder().set(fbs).build();
            if v1 {
                let m1 = packed::SendTransactionsProofV1Reader::from_compatible_slice(r.as_slice()).ok()?.to_entity();
                let mut uncles: Vec<Byte32> = m1.blocks_uncles_hash().into_iter().collect();
                let mut exts: Vec<packed::BytesOpt> = m1.blocks_extension().into_iter().collect();
                uncles.push(uncles_hash);
                exts.push(ext);
                let out = m1
                    .as_builder()
                    .filtered_blocks(items)
                    .missing_tx_hashes(missing.pack())
                    .blocks_uncles_hash(uncles.pack())
                    .blocks_extension(packed::BytesOptVec::new_builder().set(exts).build())
                    .build();
                Some((lc_msg(out).as_bytes(), note))
            } else {
                let out = msg.as_builder().filtered_blocks(items).missing_tx_hashes(missing.pack()).build();
                Some((lc_msg(out).as_bytes(), note))
            }
        }
        _ => None,
    }
}

/// The honest transactions proof with the witnesses of one delivered transaction replaced: the
/// transaction hash (and with it the Merkle proof) does not cover them.
fn forge_witness(m: &packed::LightClientMessageReader, rng: &mut Rng) -> Option<(Bytes, String)> {
    if let packed::LightClientMessageUnionReader::SendTransactionsProof(r) = m.to_enum() {
        if r.count_extra_fields() > 0 {
            return None; // keep to the v0 layout
        }
        let msg = r.to_entity();
        let mut fbs: Vec<packed::FilteredBlock> = msg.filtered_blocks().into_iter().collect();
        if fbs.is_empty() {
            return None;
        }
        let bi = rng.usize_below(fbs.len());
        let mut txs: Vec<packed::Transaction> = fbs[bi].transactions().into_iter().collect();
        if txs.is_empty() {
            return None;
        }
        let ti = rng.usize_below(txs.len());
        let n = rng.range(1, 40) as usize;
        let mut w = vec![0u8; n];
        rng.fill(&mut w);
        let witnesses = vec![Bytes::from(w).pack()];
        txs[ti] = txs[ti].clone().as_builder().witnesses(witnesses.pack()).build();
        fbs[bi] = fbs[bi].clone().as_builder().transactions(txs.pack()).build();
        let out = msg
            .as_builder()
            .filtered_blocks(packed::FilteredBlockVec::new_builder().set(fbs).build())
            .build();
        return Some((lc_msg(out).as_bytes(), format!("witnesses of delivered transaction {} of block {} forged", ti, bi)));
    }
    None
}

fn proof_for_another_question(
    sim: &Sim,
    own: View,
    m: &packed::LightClientMessageReader,
    rng: &mut Rng,
) -> Option<(Bytes, String)> {
    let world = &sim.world;
    match m.to_enum() {
        packed::LightClientMessageUnionReader::SendBlocksProof(r) => {
            let last_hash = r.last_header().header().to_entity().calc_header_hash();
            let last_number = world.number_on_branch(own.branch, &last_hash, own.height)?;
            let mut hashes: Vec<Byte32> = r.headers().iter().map(|h| h.to_entity().calc_header_hash()).collect();
            hashes.extend(r.missing_block_hashes().iter().map(|h| h.to_entity()));
            if hashes.is_empty() || last_number < 2 {
                return None;
            }
            let i = rng.usize_below(hashes.len());
            let other = world.block(own.branch, rng.range(0, last_number - 1)).hash();
            if hashes.contains(&other) {
                return None;
            }
            hashes[i] = other;
            let view = View { branch: own.branch, height: last_number };
            blocks_pov(world, view, last_hash, hashes, r.count_extra_fields() > 0)
                .map(|(b, _)| (b, format!("proven answer for another block instead of requested block {}", i)))
        }
        packed::LightClientMessageUnionReader::SendTransactionsProof(r) => {
            let last_hash = r.last_header().header().to_entity().calc_header_hash();
            let last_number = world.number_on_branch(own.branch, &last_hash, own.height)?;
            let mut hashes: Vec<Byte32> = Vec::new();
            for fb in r.filtered_blocks().iter() {
                hashes.extend(fb.transactions().iter().map(|t| t.to_entity().calc_tx_hash()));
            }
            hashes.extend(r.missing_tx_hashes().iter().map(|h| h.to_entity()));
            if hashes.is_empty() || last_number < 2 {
                return None;
            }
            let i = rng.usize_below(hashes.len());
            let blk = world.block(own.branch, rng.range(0, last_number - 1));
            let other = blk.view.transactions()[0].hash();
            if hashes.contains(&other) {
                return None;
            }
            hashes[i] = other;
            let view = View { branch: own.branch, height: last_number };
            txs_pov(world, view, last_hash, hashes, r.count_extra_fields() > 0)
                .map(|(b, _)| (b, format!("proven answer for another transaction instead of requested transaction {}", i)))
        }
        _ => None,
    }
}

fn blocks_pov(world: &crate::chain::World, view: View, last_hash: Byte32, hashes: Vec<Byte32>, v1: bool) -> Option<(Bytes, String)> {
    if hashes.is_empty() {
        return None;
    }
    let req = packed::GetBlocksProof::new_builder().last_hash(last_hash).block_hashes(hashes.pack()).build();
    match server::blocks_proof(world, view, &req, v1) {
        server::LcAnswer::Reply(m) => Some((
            m.as_bytes(),
            format!("blocks proof as seen from branch {} #{} instead of the requested last state", view.branch, view.height),
        )),
        _ => None,
    }
}

fn txs_pov(world: &crate::chain::World, view: View, last_hash: Byte32, hashes: Vec<Byte32>, v1: bool) -> Option<(Bytes, String)> {
    if hashes.is_empty() {
        return None;
    }
    let req = packed::GetTransactionsProof::new_builder().last_hash(last_hash).tx_hashes(hashes.pack()).build();
    match server::transactions_proof(world, view, &req, v1) {
        server::LcAnswer::Reply(m) => Some((
            m.as_bytes(),
            format!("transactions proof as seen from branch {} #{} instead of the requested last state", view.branch, view.height),
        )),
        _ => None,
    }
}

/// Interval mode (even, non-zero `lie_salt`): the deviating peer serves, for the blocks from
/// `lie_from` up to the next check-point number, the filter of the *previous* block instead of
/// the block's own, and filter hashes that are consistent with those tampered filters. Its
/// check points are honest. Returns the tampered interval.
fn lie_interval(sim: &Sim, p: usize) -> Option<(u64, u64)> {
    let pp = &sim.plan.peers[p];
    if pp.lie_salt == 0 || pp.lie_salt % 2 == 1 {
        return None;
    }
    let i = sim.plan.knobs.check_point_interval.max(1);
    let from = pp.lie_from.max(2);
    let to = ((from + i - 1) / i) * i;
    Some((from, to))
}

fn tampered_filter(sim: &Sim, branch: usize, n: u64) -> packed::Bytes {
    sim.world.block(branch, n - 1).filter.clone()
}

/// hash of block `n`'s filter as the interval liar reports it
fn tampered_hash(sim: &Sim, branch: usize, from: u64, n: u64) -> Byte32 {
    let mut h = sim.world.block(branch, from - 1).filter_hash.clone();
    for k in from..=n {
        h = ckb_types::utilities::calc_filter_hash(&h, &tampered_filter(sim, branch, k)).pack();
    }
    h
}

pub fn lie_filters(sim: &mut Sim, p: usize, m: packed::BlockFilters) -> packed::BlockFilters {
    let (from, to) = match lie_interval(sim, p) {
        Some(x) => x,
        None => return m,
    };
    let branch = sim.peers[p].view.branch;
    let start: u64 = m.start_number().unpack();
    let mut lied = false;
    let filters: Vec<packed::Bytes> = m
        .filters()
        .into_iter()
        .enumerate()
        .map(|(i, f)| {
            let n = start + i as u64;
            if n >= from && n <= to && n <= sim.world.tip_number(branch) {
                lied = true;
                tampered_filter(sim, branch, n)
            } else {
                f
            }
        })
        .collect();
    if lied {
        sim.stat("fault.byz.tampered_filters_consistent_with_lied_hashes");
    }
    m.as_builder().filters(filters.pack()).build()
}

fn lie_value(salt: u64, number: u64) -> Byte32 {
    let mut b = [0u8; 32];
    let mut x = mix(&[salt, number, 0x11e]);
    for c in b.chunks_mut(8) {
        c.copy_from_slice(&crate::entropy::splitmix(&mut x).to_le_bytes());
    }
    b.pack()
}

/// A deviating peer reports made-up filter hashes from block `lie_from` on.
pub fn lie_hashes(
    sim: &mut Sim,
    p: usize,
    m: packed::BlockFilterHashes,
) -> (packed::BlockFilterHashes, bool) {
    if let Some((from, to)) = lie_interval(sim, p) {
        let branch = sim.peers[p].view.branch;
        let start: u64 = m.start_number().unpack();
        let tip = sim.world.tip_number(branch);
        let mut lied = false;
        let mut hashes: Vec<Byte32> = Vec::new();
        for (i, h) in m.block_filter_hashes().into_iter().enumerate() {
            let n = start + i as u64;
            if n > to && start <= to {
                break; // the answer ends exactly at the check-point number
            }
            if n >= from && n <= to && n <= tip {
                lied = true;
                hashes.push(tampered_hash(sim, branch, from, n));
            } else {
                hashes.push(h);
            }
        }
        let parent = if start >= 1 && start - 1 >= from && start - 1 <= to {
            lied = true;
            tampered_hash(sim, branch, from, start - 1)
        } else {
            m.parent_block_filter_hash()
        };
        if lied {
            sim.stat("fault.byz.lying_filter_hashes_interval");
        }
        return (
            m.as_builder()
                .parent_block_filter_hash(parent)
                .block_filter_hashes(hashes.pack())
                .build(),
            lied,
        );
    }
    let pp = &sim.plan.peers[p];
    if pp.lie_salt == 0 {
        return (m, false);
    }
    let start: u64 = m.start_number().unpack();
    let mut lied = false;
    let hashes: Vec<Byte32> = m
        .block_filter_hashes()
        .into_iter()
        .enumerate()
        .map(|(i, h)| {
            let n = start + i as u64;
            if n >= pp.lie_from {
                lied = true;
                lie_value(pp.lie_salt, n)
            } else {
                h
            }
        })
        .collect();
    let parent = if start > 0 && start - 1 >= pp.lie_from {
        lied = true;
        lie_value(pp.lie_salt, start - 1)
    } else {
        m.parent_block_filter_hash()
    };
    if lied {
        sim.stat("fault.byz.lying_filter_hashes");
    }
    (
        m.as_builder()
            .parent_block_filter_hash(parent)
            .block_filter_hashes(hashes.pack())
            .build(),
        lied,
    )
}

/// A deviating peer reports made-up check points from block `lie_from` on.
pub fn lie_check_points(
    sim: &mut Sim,
    p: usize,
    m: packed::BlockFilterCheckPoints,
) -> (packed::BlockFilterCheckPoints, bool) {
    let pp = &sim.plan.peers[p];
    if pp.lie_salt == 0 || pp.lie_salt % 2 == 0 {
        return (m, false);
    }
    let start: u64 = m.start_number().unpack();
    let interval = sim.plan.knobs.check_point_interval;
    let mut lied = false;
    let hashes: Vec<Byte32> = m
        .block_filter_hashes()
        .into_iter()
        .enumerate()
        .map(|(i, h)| {
            let n = start + i as u64 * interval;
            // the first check point at or above `lie_from`, and `lie_span` of them from there
            let first = (pp.lie_from + interval - 1) / interval * interval;
            let again_true = pp.lie_span > 0 && n >= first + pp.lie_span * interval;
            if n >= pp.lie_from && !again_true {
                lied = true;
                lie_value(pp.lie_salt, n)
            } else {
                h
            }
        })
        .collect();
    if lied {
        sim.stat("fault.byz.lying_check_points");
    }
    (m.as_builder().block_filter_hashes(hashes.pack()).build(), lied)
}

/// Sibling digests tuned so that they add up to (about) 2^256-1 on their own: every check of
/// the siblings alone passes, the first merge with a proved header's digest overflows.
fn tuned_siblings(proof: Vec<packed::HeaderDigest>, rng: &mut Rng) -> Option<Vec<packed::HeaderDigest>> {
    if proof.is_empty() {
        return None;
    }
    let j = rng.usize_below(proof.len());
    let mut others = U256::zero();
    for (i, d) in proof.iter().enumerate() {
        if i != j {
            let td: U256 = d.total_difficulty().unpack();
            others = others.checked_add(&td)?;
        }
    }
    let room = u256_max().checked_sub(&others)?;
    let td = match rng.below(4) {
        0 => room,
        1 => room.checked_sub(&U256::from(rng.below(1000))).unwrap_or(room),
        2 => u256_max(),
        _ => room.checked_sub(&U256::one()).unwrap_or(room),
    };
    let mut out = proof;
    out[j] = out[j].clone().as_builder().total_difficulty(td.pack()).build();
    Some(out)
}

fn overflowing_root(v: &packed::VerifiableHeader, rng: &mut Rng) -> packed::VerifiableHeader {
    let root = v.parent_chain_root();
    let td = if rng.chance(2, 3) { u256_max() } else { &u256_max() - rng.below(3) as u32 };
    let root = if rng.chance(1, 5) {
        root.as_builder().end_number(u64::MAX.pack()).build()
    } else {
        root.as_builder().total_difficulty(td.pack()).build()
    };
    v.clone().as_builder().parent_chain_root(root).build()
}

/// Honest answers whose peer-supplied totals / numbers sit at the arithmetic boundary (the
/// header, uncles hash and extension - what the client compares first - stay as they are).
/// A self-consistent made-up tip: the header of `v` with an extension (and extra hash) that
/// commits to a chain root whose total difficulty is 2^256-1 (or a little below).
fn overflowing_tip(v: &packed::VerifiableHeader, pow: crate::chain::PowKind, rng: &mut Rng) -> packed::VerifiableHeader {
    let td = if rng.chance(2, 3) { u256_max() } else { &u256_max() - rng.below(3) as u32 };
    let root = v.parent_chain_root().as_builder().total_difficulty(td.pack()).build();
    let ext: packed::Bytes = Bytes::from(root.calc_mmr_hash().as_slice().to_vec()).pack();
    let raw = v.header().raw();
    let header = raw_header(
        raw.number().unpack(),
        raw.epoch().unpack(),
        raw.compact_target().unpack(),
        Unpack::<u64>::unpack(&raw.timestamp()) + 1,
        raw.parent_hash(),
        &ext,
    );
    let header = crate::chain::mine_header(pow, header);
    packed::VerifiableHeader::new_builder()
        .header(header)
        .uncles_hash(Byte32::zero())
        .extension(packed::BytesOpt::new_builder().set(Some(ext)).build())
        .parent_chain_root(root)
        .build()
}

fn overflow_attack(data: &Bytes, pow: crate::chain::PowKind, rng: &mut Rng) -> Option<(Bytes, String)> {
    let m = packed::LightClientMessageReader::from_compatible_slice(data).ok()?;
    // blocks / transactions proofs, one time in four: "my tip has changed" - nothing but a new
    // last header, self-consistent, whose chain root carries the boundary total difficulty
    if rng.chance(1, 4) {
        let tip = match m.to_enum() {
            packed::LightClientMessageUnionReader::SendBlocksProof(r) => Some((true, r.last_header().to_entity())),
            packed::LightClientMessageUnionReader::SendTransactionsProof(r) => Some((false, r.last_header().to_entity())),
            _ => None,
        };
        if let Some((blocks, last)) = tip {
            let fake = overflowing_tip(&last, pow, rng);
            let out = if blocks {
                lc_msg(packed::SendBlocksProof::new_builder().last_header(fake).build())
            } else {
                lc_msg(packed::SendTransactionsProof::new_builder().last_header(fake).build())
            };
            return Some((out.as_bytes(), "tip changed: a self-consistent new last header with an overflowing chain root".to_string()));
        }
    }
    let root_variant = rng.chance(1, 3);
    let note = if root_variant { "overflowing chain root of the last header" } else { "sibling digests tuned to overflow at the first merge" };
    let out = match m.to_enum() {
        packed::LightClientMessageUnionReader::SendLastStateProof(r) => {
            let e = r.to_entity();
            if root_variant {
                lc_msg(e.clone().as_builder().last_header(overflowing_root(&e.last_header(), rng)).build())
            } else {
                let proof = tuned_siblings(e.proof().into_iter().collect(), rng)?;
                lc_msg(e.as_builder().proof(proof.pack()).build())
            }
        }
        packed::LightClientMessageUnionReader::SendBlocksProof(r) => {
            if r.count_extra_fields() >= 2 {
                let e = packed::SendBlocksProofV1Reader::from_compatible_slice(r.as_slice()).ok()?.to_entity();
                if root_variant {
                    lc_msg(e.clone().as_builder().last_header(overflowing_root(&e.last_header(), rng)).build())
                } else {
                    let proof = tuned_siblings(e.proof().into_iter().collect(), rng)?;
                    lc_msg(e.as_builder().proof(proof.pack()).build())
                }
            } else {
                let e = r.to_entity();
                if root_variant {
                    lc_msg(e.clone().as_builder().last_header(overflowing_root(&e.last_header(), rng)).build())
                } else {
                    let proof = tuned_siblings(e.proof().into_iter().collect(), rng)?;
                    lc_msg(e.as_builder().proof(proof.pack()).build())
                }
            }
        }
        packed::LightClientMessageUnionReader::SendTransactionsProof(r) => {
            if r.count_extra_fields() >= 2 {
                let e = packed::SendTransactionsProofV1Reader::from_compatible_slice(r.as_slice()).ok()?.to_entity();
                if root_variant {
                    lc_msg(e.clone().as_builder().last_header(overflowing_root(&e.last_header(), rng)).build())
                } else {
                    let proof = tuned_siblings(e.proof().into_iter().collect(), rng)?;
                    lc_msg(e.as_builder().proof(proof.pack()).build())
                }
            } else {
                let e = r.to_entity();
                if root_variant {
                    lc_msg(e.clone().as_builder().last_header(overflowing_root(&e.last_header(), rng)).build())
                } else {
                    let proof = tuned_siblings(e.proof().into_iter().collect(), rng)?;
                    lc_msg(e.as_builder().proof(proof.pack()).build())
                }
            }
        }
        _ => return None,
    };
    Some((out.as_bytes(), note.to_string()))
}

/// The attacker makes up a header with a boundary number (valid PoW on a target of its own
/// choice), hands its hash to the user, and the user asks the client to fetch it.
fn plant_header(sim: &mut Sim, p: usize, rng: &mut Rng) -> Option<Byte32> {
    let number = match rng.below(4) {
        0 | 1 => u64::MAX,
        2 => u64::MAX - 1,
        _ => pick_u64(rng),
    };
    let root = random_digest(rng);
    let ext: packed::Bytes = Bytes::from(root.calc_mmr_hash().as_slice().to_vec()).pack();
    let mut ph = [0u8; 32];
    rng.fill(&mut ph);
    let header = raw_header(number, pick_epoch(rng), 0x2080_0000, rng.next_u64(), ph.pack(), &ext);
    let header = crate::chain::mine_header(sim.world.params.pow, header);
    let hash = header.calc_header_hash();
    sim.peers[p].planted_headers.push((header, ext));
    Some(hash)
}

/// The planting peer "finds" its made-up headers when asked to prove them.
pub fn planted_blocks_proof(sim: &Sim, p: usize, req: &packed::GetBlocksProof, v1: bool) -> Option<(Bytes, Tag)> {
    let planted = &sim.peers[p].planted_headers;
    if planted.is_empty() {
        return None;
    }
    let asked: Vec<Byte32> = req.block_hashes().into_iter().collect();
    if !asked.iter().any(|h| planted.iter().any(|(hd, _)| hd.calc_header_hash() == *h)) {
        return None;
    }
    let view = sim.peers[p].view;
    let last_number = sim.world.number_on_branch(view.branch, &req.last_hash(), view.height)?;
    let mut found: Vec<u64> = Vec::new();
    let mut extra: Vec<(packed::Header, packed::Bytes)> = Vec::new();
    let mut missing: Vec<Byte32> = Vec::new();
    for h in asked {
        if let Some(x) = planted.iter().find(|(hd, _)| hd.calc_header_hash() == h) {
            extra.push(x.clone());
            continue;
        }
        match sim.world.number_on_branch(view.branch, &h, view.height) {
            Some(n) if n < last_number => found.push(n),
            _ => missing.push(h),
        }
    }
    let mut headers: Vec<packed::Header> =
        found.iter().map(|n| sim.world.block(view.branch, *n).view.data().header()).collect();
    let proof = sim.world.gen_proof(view.branch, last_number, &found);
    let last_header = sim.world.block(view.branch, last_number).verifiable();
    let mut uncles: Vec<Byte32> = found.iter().map(|n| sim.world.block(view.branch, *n).view.calc_uncles_hash()).collect();
    let mut exts: Vec<packed::BytesOpt> = found
        .iter()
        .map(|n| packed::BytesOpt::new_builder().set(sim.world.block(view.branch, *n).view.extension()).build())
        .collect();
    for (h, e) in extra {
        headers.push(h);
        uncles.push(Byte32::zero());
        exts.push(packed::BytesOpt::new_builder().set(Some(e)).build());
    }
    let m = if v1 {
        lc_msg(
            packed::SendBlocksProofV1::new_builder()
                .last_header(last_header)
                .proof(proof.pack())
                .headers(headers.pack())
                .missing_block_hashes(missing.pack())
                .blocks_uncles_hash(uncles.pack())
                .blocks_extension(packed::BytesOptVec::new_builder().set(exts).build())
                .build(),
        )
    } else {
        lc_msg(
            packed::SendBlocksProof::new_builder()
                .last_header(last_header)
                .proof(proof.pack())
                .headers(headers.pack())
                .missing_block_hashes(missing.pack())
                .build(),
        )
    };
    let mut t = crafted(Kind::SendBlocksProof, "made-up header with a boundary number 'proven'");
    t.request = None;
    Some((m.as_bytes(), t))
}

/// The honest transactions proof with the positions of the CBMT proof of one filtered block
/// replaced by boundary values (everything the client checks before - hashes, headers, MMR
/// proof - stays true).
fn cbmt_attack(data: &Bytes, rng: &mut Rng) -> Option<(Bytes, String)> {
    let m = packed::LightClientMessageReader::from_compatible_slice(data).ok()?;
    let r = match m.to_enum() {
        packed::LightClientMessageUnionReader::SendTransactionsProof(r) => r,
        _ => return None,
    };
    let tamper = |fbs: packed::FilteredBlockVec, rng: &mut Rng| -> Option<packed::FilteredBlockVec> {
        let mut v: Vec<packed::FilteredBlock> = fbs.into_iter().collect();
        if v.is_empty() {
            return None;
        }
        // prefer a block with several transactions
        let i = (0..v.len()).max_by_key(|i| v[*i].transactions().len()).unwrap();
        let fb = v[i].clone();
        let n = fb.transactions().len();
        let mut idx: Vec<u32> = fb.proof().indices().into_iter().map(|x| x.unpack()).collect();
        match rng.below(5) {
            0 => idx = vec![u32::MAX; n],
            1 => {
                if let Some(x) = idx.first_mut() {
                    *x = u32::MAX;
                }
            }
            2 => {
                if let Some(x) = idx.last_mut() {
                    *x = u32::MAX - 1;
                }
            }
            3 => idx = (0..n as u32).map(|k| u32::MAX - k).collect(),
            _ => idx = vec![0; n],
        }
        let proof = fb.proof().as_builder().indices(idx.pack()).build();
        v[i] = fb.as_builder().proof(proof).build();
        Some(packed::FilteredBlockVec::new_builder().set(v).build())
    };
    let out = if r.count_extra_fields() >= 2 {
        let e = packed::SendTransactionsProofV1Reader::from_compatible_slice(r.as_slice()).ok()?.to_entity();
        let fbs = tamper(e.filtered_blocks(), rng)?;
        lc_msg(e.as_builder().filtered_blocks(fbs).build())
    } else {
        let e = r.to_entity();
        let fbs = tamper(e.filtered_blocks(), rng)?;
        lc_msg(e.as_builder().filtered_blocks(fbs).build())
    };
    Some((out.as_bytes(), "positions of a transactions merkle proof at the boundary".to_string()))
}

/// The honest check-points answer extended by made-up values for several intervals beyond the
/// peer's tip, and the continuation that starts where the client - which keeps all but the last
/// value of an answer that overshoots - now expects the next one: beyond the proven tip.
fn overlong_check_points(sim: &Sim, data: &Bytes, rng: &mut Rng) -> Option<(Bytes, Bytes)> {
    let m = packed::BlockFilterMessageReader::from_slice(data).ok()?;
    let r = match m.to_enum() {
        packed::BlockFilterMessageUnionReader::BlockFilterCheckPoints(r) => r.to_entity(),
        _ => return None,
    };
    let interval = sim.plan.knobs.check_point_interval;
    let start: u64 = r.start_number().unpack();
    let mut hashes: Vec<Byte32> = r.block_filter_hashes().into_iter().collect();
    if hashes.is_empty() {
        return None;
    }
    let extra = rng.range(3, 6) as usize;
    hashes.extend(random_hashes(rng, extra));
    let kept_last = hashes.len() - 2;
    let start2 = start + interval * kept_last as u64;
    let mut cont = vec![hashes[kept_last].clone()];
    let n2 = rng.range(1, 4) as usize;
    cont.extend(random_hashes(rng, n2));
    let m1 = server::filter_msg(
        packed::BlockFilterCheckPoints::new_builder()
            .start_number(start.pack())
            .block_filter_hashes(hashes.pack())
            .build(),
    );
    let m2 = server::filter_msg(
        packed::BlockFilterCheckPoints::new_builder()
            .start_number(start2.pack())
            .block_filter_hashes(cont.pack())
            .build(),
    );
    Some((m1.as_bytes(), m2.as_bytes()))
}

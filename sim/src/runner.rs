//! Executes one plan in a fresh OS thread (fresh thread-local RandomState keys / ThreadRng,
//! seeded from the plan) and collects the outcome.

use std::collections::{BTreeMap, HashSet};
use std::path::PathBuf;
use std::sync::atomic::{AtomicBool, AtomicU64, Ordering};

use crate::entropy;
use crate::plan::Plan;
use crate::sim::{Sim, Violation};

#[derive(Clone, Debug, serde::Serialize, serde::Deserialize)]
pub struct Outcome {
    pub seed: u64,
    pub events: u64,
    pub vtime: u64,
    pub trace_hash: u64,
    pub violations: Vec<Violation>,
    pub stats: BTreeMap<String, u64>,
    pub harness_error: Option<String>,
    #[serde(skip)]
    pub coverage: HashSet<u64>,
    #[serde(skip)]
    pub trace: Vec<String>,
    pub entropy_calls: u64,
    #[serde(skip)]
    pub write_sites: Vec<String>,
}

static RUN_COUNTER: AtomicU64 = AtomicU64::new(0);
/// crash injection: unwind before the CRASH_AT-th storage write (0 = disarmed)
static CRASH_AT: AtomicU64 = AtomicU64::new(0);
static WRITES: AtomicU64 = AtomicU64::new(0);
static HOOK_INSTALLED: AtomicBool = AtomicBool::new(false);
thread_local! {
    static WRITE_SITES: std::cell::RefCell<Vec<&'static str>> = std::cell::RefCell::new(Vec::new());
}

pub fn disarm_crash() {
    CRASH_AT.store(0, Ordering::SeqCst);
}

fn install_write_hook() {
    if HOOK_INSTALLED.swap(true, Ordering::SeqCst) {
        return;
    }
    crate::verif_hooks::install(Some(std::sync::Arc::new(|p| {
        if let crate::verif_hooks::Point::BeforeWrite(site) = p {
            let n = WRITES.fetch_add(1, Ordering::SeqCst) + 1;
            let _ = WRITE_SITES.try_with(|w| w.borrow_mut().push(site));
            let at = CRASH_AT.load(Ordering::SeqCst);
            if at != 0 && n == at {
                panic!("VERIF-CRASH {}", site);
            }
        }
    })));
}
static LOG_ON: AtomicBool = AtomicBool::new(false);

struct DiscardLogger;
impl log::Log for DiscardLogger {
    fn enabled(&self, _: &log::Metadata) -> bool {
        LOG_ON.load(Ordering::Relaxed)
    }
    fn log(&self, record: &log::Record) {
        if LOG_ON.load(Ordering::Relaxed) {
            // format the arguments (executes every expression in them), then discard
            use std::fmt::Write;
            let mut s = String::new();
            let _ = write!(s, "{}", record.args());
            if std::env::var_os("VSIM_LOG").is_some() {
                eprintln!("[{}] {}", record.level(), s);
            }
        }
    }
    fn flush(&self) {}
}
static LOGGER: DiscardLogger = DiscardLogger;

pub fn init_process(verbose_panics: bool) {
    crate::client::install_panic_hook(verbose_panics);
    let _ = log::set_logger(&LOGGER);
    log::set_max_level(log::LevelFilter::Off);
}

pub fn scratch_root() -> PathBuf {
    let base = std::env::var("VERIF_SCRATCH").unwrap_or_else(|_| {
        if std::path::Path::new("/dev/shm").is_dir() {
            "/dev/shm".to_string()
        } else {
            "/verif/scratch".to_string()
        }
    });
    PathBuf::from(base).join(format!("verif-{}", std::process::id()))
}

pub fn fresh_dir() -> PathBuf {
    let n = RUN_COUNTER.fetch_add(1, Ordering::SeqCst);
    let d = scratch_root().join(format!("run-{}", n));
    let _ = std::fs::remove_dir_all(&d);
    std::fs::create_dir_all(&d).expect("create scratch dir");
    d
}

pub fn cleanup_process() {
    let _ = std::fs::remove_dir_all(scratch_root());
}

/// Runs `f` on a fresh thread with deterministic entropy.
pub fn on_fresh_thread<R: Send + 'static>(seed: u64, f: impl FnOnce() -> R + Send + 'static) -> R {
    std::thread::Builder::new()
        .stack_size(64 << 20)
        .spawn(move || {
            entropy::install(seed);
            let r = f();
            entropy::uninstall();
            r
        })
        .expect("spawn")
        .join()
        .expect("simulation thread must not die")
}

pub fn execute(plan: &Plan, verbose: bool) -> Outcome {
    let plan = plan.clone();
    let seed = entropy::mix(&[plan.seed, 0xe17]);
    on_fresh_thread(seed, move || {
        if plan.trace_logging || std::env::var_os("VSIM_LOG").is_some() {
            LOG_ON.store(true, Ordering::SeqCst);
            log::set_max_level(log::LevelFilter::Trace);
        } else {
            LOG_ON.store(false, Ordering::SeqCst);
            log::set_max_level(log::LevelFilter::Off);
        }
        let dir = fresh_dir();
        install_write_hook();
        WRITES.store(0, Ordering::SeqCst);
        WRITE_SITES.with(|w| w.borrow_mut().clear());
        let crash_at = plan
            .flags
            .iter()
            .find_map(|f| f.strip_prefix("crash_at=").and_then(|v| v.parse::<u64>().ok()))
            .unwrap_or(0);
        CRASH_AT.store(crash_at, Ordering::SeqCst);
        let mut sim = Sim::new(plan.clone(), dir.clone(), verbose);
        sim.run();
        CRASH_AT.store(0, Ordering::SeqCst);
        sim.stat_add("writes_total", WRITES.load(Ordering::SeqCst));
        let sites: Vec<&'static str> = WRITE_SITES.with(|w| w.borrow().clone());
        let out = Outcome {
            seed: plan.seed,
            events: sim.events,
            vtime: sim.now,
            trace_hash: sim.trace_hash,
            violations: sim.violations.clone(),
            stats: sim.stats.clone(),
            harness_error: sim.harness_error.clone(),
            coverage: std::mem::take(&mut sim.coverage),
            trace: sim.trace.take().unwrap_or_default(),
            entropy_calls: entropy::calls(),
            write_sites: sites.iter().map(|s| s.to_string()).collect(),
        };
        drop(sim);
        let _ = std::fs::remove_dir_all(&dir);
        log::set_max_level(log::LevelFilter::Off);
        LOG_ON.store(false, Ordering::SeqCst);
        out
    })
}

//! Executes one plan in a fresh OS thread (fresh thread-local RandomState keys / ThreadRng,
//! seeded from the plan) and collects the outcome.

use std::collections::{BTreeMap, HashSet};
use std::path::PathBuf;
use std::sync::atomic::{AtomicBool, AtomicU64, Ordering};

use crate::entropy;
use crate::plan::Plan;
use crate::sim::{Sim, Violation};

#[derive(Clone, Debug, serde::Serialize, serde::Deserialize)]
pub struct Outcome {
    pub seed: u64,
    pub events: u64,
    pub vtime: u64,
    pub trace_hash: u64,
    pub violations: Vec<Violation>,
    pub stats: BTreeMap<String, u64>,
    pub harness_error: Option<String>,
    #[serde(skip)]
    pub coverage: HashSet<u64>,
    #[serde(skip)]
    pub trace: Vec<String>,
    pub entropy_calls: u64,
    #[serde(skip)]
    pub write_sites: Vec<String>,
    /// C17: (event number, first write, last write, kind) of every event that wrote
    #[serde(skip)]
    pub event_writes: Vec<(u64, u64, u64, String)>,
    #[serde(skip)]
    pub bound_is_lock: Vec<bool>,
    /// per boundary: "lock:<site>" or "write:<site>"
    #[serde(skip)]
    pub bound_names: Vec<String>,
    #[serde(skip)]
    pub snapshot: Option<String>,
    #[serde(skip)]
    pub pair_answer: Option<(bool, String)>,
    /// C17 randomized runs: the schedule as executed ("thread@point thread@point ...")
    #[serde(skip)]
    pub schedule: Option<String>,
}

static RUN_COUNTER: AtomicU64 = AtomicU64::new(0);
/// crash injection: unwind before the CRASH_AT-th storage write (0 = disarmed)
static CRASH_AT: AtomicU64 = AtomicU64::new(0);
static WRITES: AtomicU64 = AtomicU64::new(0);
/// C17: storage writes and lock intents, numbered together (pause points of the first operation)
static BOUNDS: AtomicU64 = AtomicU64::new(0);
static CRASH_SITE: std::sync::Mutex<Option<(String, u64)>> = std::sync::Mutex::new(None);
static HOOK_INSTALLED: AtomicBool = AtomicBool::new(false);
thread_local! {
    /// per boundary (write or lock intent) of this run: is it a lock intent?
    static BOUND_IS_LOCK: std::cell::RefCell<Vec<bool>> = std::cell::RefCell::new(Vec::new());
    static BOUND_NAMES: std::cell::RefCell<Vec<String>> = std::cell::RefCell::new(Vec::new());
    static WRITE_SITES: std::cell::RefCell<Vec<&'static str>> = std::cell::RefCell::new(Vec::new());
    /// suffix of the boundary names of the current event (abstract client state)
    static BOUND_CONTEXT: std::cell::RefCell<String> = std::cell::RefCell::new(String::new());
}

pub fn set_bound_context(ctx: String) {
    let _ = BOUND_CONTEXT.try_with(|c| *c.borrow_mut() = ctx);
}

/// C17: park the thread that is about to issue the PAUSE_AT-th write and start the paired
/// operation on a second thread (0 = disarmed)
static PAUSE_AT: AtomicU64 = AtomicU64::new(0);
pub struct PairJob {
    pub io: jsonrpc_core::IoHandler,
    pub request: String,
    pub seed: u64,
    /// instead of an RPC request: a peer message handled by a second protocol handler
    pub deliver: Option<PairDeliver>,
    /// three threads: park this job's thread before its n-th own boundary (storage write or
    /// lock intent) and start a third operation meanwhile
    pub then: Option<(u64, Box<PairJob>)>,
}
pub struct PairDeliver {
    pub handler: Box<dyn ckb_network::CKBProtocolHandler + Send>,
    pub nc: std::sync::Arc<dyn ckb_network::CKBProtocolContext + Sync>,
    pub peer: ckb_network::PeerIndex,
    pub data: ckb_network::bytes::Bytes,
}
impl PairJob {
    fn run(self) -> String {
        match self.deliver {
            Some(mut d) => {
                crate::client::run_once(d.handler.received(d.nc, d.peer, d.data));
                "delivered".to_string()
            }
            None => self.io.handle_request_sync(&self.request).unwrap_or_default(),
        }
    }
}
pub enum PairState {
    /// the paired operation finished while the first one was parked: it ran inside it
    RanInside(String),
    /// it did not finish within the grace period: it waits for something the first one holds
    Blocked(PairRx),
}
/// The answer channel of the second thread plus its join handle (the thread owns clones of
/// the store; it must be gone before the process runs its exit handlers).
pub struct PairRx {
    rx: std::sync::mpsc::Receiver<String>,
    handle: Option<std::thread::JoinHandle<()>>,
    /// kernel thread id of the operation's thread
    tid: std::sync::Arc<AtomicU64>,
}
impl PairRx {
    /// Waits until the operation has finished (Ok) or is seen blocked (Err): its thread has
    /// been asleep - not runnable - at every poll of the last 100 ms, at least 250 ms after it
    /// was started. A thread that is merely slow (runnable, waiting for a core on a loaded
    /// machine) is not taken for a blocked one.
    pub fn finished_or_blocked(&mut self) -> Result<String, ()> {
        self.finished_or_blocked_inner(true)
    }
    pub fn finished_or_blocked_ignoring_flag(&mut self) -> Result<String, ()> {
        self.finished_or_blocked_inner(false)
    }
    fn finished_or_blocked_inner(&mut self, heed_flag: bool) -> Result<String, ()> {
        let t0 = std::time::Instant::now();
        let mut asleep = 0u32;
        loop {
            if let Ok(r) = self.recv_timeout(std::time::Duration::from_millis(5)) {
                return Ok(r);
            }
            let tid = self.tid.load(Ordering::SeqCst);
            let state = if tid == 0 {
                'R'
            } else {
                std::fs::read_to_string(format!("/proc/self/task/{}/stat", tid))
                    .ok()
                    .and_then(|s| s.rsplit(')').next().map(|r| r.trim_start().chars().next().unwrap_or('R')))
                    .unwrap_or('R')
            };
            if state == 'S' && !(heed_flag && SECOND_WATCHES_THIRD.load(Ordering::SeqCst)) {
                asleep += 1;
            } else {
                asleep = 0;
            }
            let waited = t0.elapsed();
            if (asleep >= 20 && waited >= std::time::Duration::from_millis(250)) || waited >= std::time::Duration::from_secs(20) {
                return Err(());
            }
        }
    }
    pub fn recv_timeout(&mut self, d: std::time::Duration) -> Result<String, ()> {
        match self.rx.recv_timeout(d) {
            Ok(r) => {
                if let Some(h) = self.handle.take() {
                    let _ = h.join();
                }
                Ok(r)
            }
            Err(_) => Err(()),
        }
    }
}
static PAIR_JOB: std::sync::Mutex<Option<PairJob>> = std::sync::Mutex::new(None);
static PAIR_STATE: std::sync::Mutex<Option<PairState>> = std::sync::Mutex::new(None);
/// the third operation, until the second thread reaches its parking boundary
static THIRD_JOB: std::sync::Mutex<Option<PairJob>> = std::sync::Mutex::new(None);
static THIRD_STATE: std::sync::Mutex<Option<PairState>> = std::sync::Mutex::new(None);
/// the second thread is parked in its hook, watching the third one: asleep, but not blocked
static SECOND_WATCHES_THIRD: AtomicBool = AtomicBool::new(false);
thread_local! {
    /// on the second thread: own boundaries left until it parks and the third one starts
    static THIRD_COUNTDOWN: std::cell::Cell<u64> = std::cell::Cell::new(0);
}

/// What became of the third operation: Ok((where it ran, answer)) - 0: inside the second
/// operation, 1: it was blocked until something finished, 2: the second thread never reached its
/// parking boundary and the job is handed back to run last.
pub enum ThirdOutcome {
    Ran(u8, String),
    NotStarted(PairJob),
    Deadlock,
    None,
}
pub fn join_third() -> ThirdOutcome {
    if let Some(j) = THIRD_JOB.lock().unwrap_or_else(|e| e.into_inner()).take() {
        return ThirdOutcome::NotStarted(j);
    }
    match THIRD_STATE.lock().unwrap_or_else(|e| e.into_inner()).take() {
        Some(PairState::RanInside(r)) => ThirdOutcome::Ran(0, r),
        Some(PairState::Blocked(mut rx)) => match rx.recv_timeout(std::time::Duration::from_secs(20)) {
            Ok(r) => ThirdOutcome::Ran(1, r),
            Err(_) => ThirdOutcome::Deadlock,
        },
        None => ThirdOutcome::None,
    }
}

/// Events a parked reader sends to the simulator thread.
pub enum ReaderEvent {
    Parked,
    Done(String),
}
thread_local! {
    /// (iterations left until parking, parked signal, release)
    static READER_PARK: std::cell::RefCell<Option<(u64, std::sync::mpsc::Sender<ReaderEvent>, std::sync::mpsc::Receiver<()>)>> = std::cell::RefCell::new(None);
}

/// Runs the reader `job` on a second thread and parks it at its `park_at`-th iteration hook.
/// Returns the event channel, the release sender and the join handle.
pub fn spawn_parked_reader(
    job: PairJob,
    park_at: u64,
) -> (
    std::sync::mpsc::Receiver<ReaderEvent>,
    std::sync::mpsc::Sender<()>,
    std::thread::JoinHandle<()>,
) {
    let (etx, erx) = std::sync::mpsc::channel();
    let (rtx, rrx) = std::sync::mpsc::channel();
    let handle = std::thread::Builder::new()
        .stack_size(16 << 20)
        .spawn(move || {
            entropy::install(job.seed);
            READER_PARK.with(|p| *p.borrow_mut() = Some((park_at, etx.clone(), rrx)));
            let r = std::panic::catch_unwind(std::panic::AssertUnwindSafe(|| job.run()));
            READER_PARK.with(|p| *p.borrow_mut() = None);
            entropy::uninstall();
            let _ = etx.send(ReaderEvent::Done(match r {
                Ok(s) => s,
                Err(_) => "UNWOUND".to_string(),
            }));
        })
        .expect("spawn reader thread");
    (erx, rtx, handle)
}

fn reader_iteration_hook() {
    let parked = READER_PARK.with(|p| {
        let mut p = p.borrow_mut();
        match p.as_mut() {
            Some((left, _, _)) if *left > 1 => {
                *left -= 1;
                None
            }
            Some((left, _, _)) if *left == 1 => {
                *left = 0;
                p.take()
            }
            _ => None,
        }
    });
    if let Some((_, etx, rrx)) = parked {
        let _ = etx.send(ReaderEvent::Parked);
        // parked: wait until the simulator has run the writer (or gives up after 30 s)
        let _ = rrx.recv_timeout(std::time::Duration::from_secs(30));
        // keep the event sender alive for the final Done message
        READER_PARK.with(|p| *p.borrow_mut() = None);
        std::mem::drop(etx);
    }
}

pub fn spawn_pair(mut job: PairJob) -> PairRx {
    let (tx, rx) = std::sync::mpsc::channel();
    let then = job.then.take();
    let tid = std::sync::Arc::new(AtomicU64::new(0));
    let tid2 = tid.clone();
    let handle = std::thread::Builder::new()
        .stack_size(16 << 20)
        .spawn(move || {
            tid2.store(unsafe { libc::syscall(libc::SYS_gettid) } as u64, Ordering::SeqCst);
            if let Some((n, third)) = then {
                *THIRD_JOB.lock().unwrap_or_else(|e| e.into_inner()) = Some(*third);
                *THIRD_STATE.lock().unwrap_or_else(|e| e.into_inner()) = None;
                THIRD_COUNTDOWN.with(|c| c.set(n.max(1)));
            }
            entropy::install(job.seed);
            let r = std::panic::catch_unwind(std::panic::AssertUnwindSafe(|| job.run()));
            entropy::uninstall();
            let _ = tx.send(match r {
                Ok(s) => s,
                Err(_) => "UNWOUND".to_string(),
            });
        })
        .expect("spawn pair thread");
    PairRx { rx, handle: Some(handle), tid }
}

/// Randomized runs: the job's thread registers with the scheduler (slot), parks at its start and
/// at the boundaries the scheduler's seed selects.
pub fn spawn_sched(job: PairJob, slot: usize) -> PairRx {
    let (tx, rx) = std::sync::mpsc::channel();
    let tid = std::sync::Arc::new(AtomicU64::new(0));
    let tid2 = tid.clone();
    let handle = std::thread::Builder::new()
        .stack_size(16 << 20)
        .spawn(move || {
            tid2.store(unsafe { libc::syscall(libc::SYS_gettid) } as u64, Ordering::SeqCst);
            entropy::install(job.seed);
            crate::sched::thread_start(slot);
            let r = std::panic::catch_unwind(std::panic::AssertUnwindSafe(|| job.run()));
            crate::sched::thread_done();
            entropy::uninstall();
            let _ = tx.send(match r {
                Ok(s) => s,
                Err(_) => "UNWOUND".to_string(),
            });
        })
        .expect("spawn scheduled thread");
    PairRx { rx, handle: Some(handle), tid }
}

pub fn arm_pause(at: u64, job: PairJob) {
    *THIRD_JOB.lock().unwrap_or_else(|e| e.into_inner()) = None;
    *THIRD_STATE.lock().unwrap_or_else(|e| e.into_inner()) = None;
    *PAIR_JOB.lock().unwrap_or_else(|e| e.into_inner()) = Some(job);
    *PAIR_STATE.lock().unwrap_or_else(|e| e.into_inner()) = None;
    PAUSE_AT.store(at, Ordering::SeqCst);
}

/// After the first operation returned: (did the second run inside the first, its answer)
pub fn join_pair() -> Result<(bool, String), String> {
    PAUSE_AT.store(0, Ordering::SeqCst);
    if PAIR_JOB.lock().unwrap_or_else(|e| e.into_inner()).take().is_some() {
        return Err("the pause boundary was not reached".into());
    }
    match PAIR_STATE.lock().unwrap_or_else(|e| e.into_inner()).take() {
        Some(PairState::RanInside(r)) => Ok((true, r)),
        Some(PairState::Blocked(mut rx)) => match rx.recv_timeout(std::time::Duration::from_secs(20)) {
            Ok(r) => Ok((false, r)),
            Err(_) => Err("DEADLOCK".into()),
        },
        None => Err("the pause boundary was not reached".into()),
    }
}

pub fn writes_now() -> u64 {
    WRITES.load(Ordering::SeqCst)
}

pub fn bounds_now() -> u64 {
    BOUNDS.load(Ordering::SeqCst)
}

static PAUSED_AT_LOCK_INTENT: AtomicBool = AtomicBool::new(false);
pub fn take_paused_at_lock_intent() -> bool {
    PAUSED_AT_LOCK_INTENT.swap(false, Ordering::SeqCst)
}

pub fn disarm_crash() {
    CRASH_AT.store(0, Ordering::SeqCst);
    *CRASH_SITE.lock().unwrap_or_else(|e| e.into_inner()) = None;
}

fn install_write_hook() {
    if HOOK_INSTALLED.swap(true, Ordering::SeqCst) {
        return;
    }
    crate::verif_hooks::install(Some(std::sync::Arc::new(|p| {
        if let crate::verif_hooks::Point::Iter(_) = p {
            reader_iteration_hook();
        }
        // randomized multi-thread runs: every boundary is a potential parking point
        match p {
            crate::verif_hooks::Point::BeforeWrite(n) => crate::sched::at_boundary(false, n),
            crate::verif_hooks::Point::LockIntent(n) => crate::sched::at_boundary(true, n),
            crate::verif_hooks::Point::Iter(n) => crate::sched::at_boundary(false, n),
            _ => {}
        }
        if matches!(p, crate::verif_hooks::Point::BeforeWrite(_) | crate::verif_hooks::Point::LockIntent(_)) {
            let b = BOUNDS.fetch_add(1, Ordering::SeqCst) + 1;
            let _ = BOUND_IS_LOCK.try_with(|v| v.borrow_mut().push(matches!(p, crate::verif_hooks::Point::LockIntent(_))));
            let _ = BOUND_NAMES.try_with(|v| {
                let ctx = BOUND_CONTEXT.try_with(|c| c.borrow().clone()).unwrap_or_default();
                v.borrow_mut().push(match p {
                    crate::verif_hooks::Point::LockIntent(n) => format!("lock:{}{}", n, ctx),
                    crate::verif_hooks::Point::BeforeWrite(n) => format!("write:{}{}", n, ctx),
                    _ => String::new(),
                })
            });
            // the second thread of a three-thread case parks before its n-th own boundary
            let start_third = THIRD_COUNTDOWN
                .try_with(|c| {
                    let left = c.get();
                    if left == 0 {
                        false
                    } else {
                        c.set(left - 1);
                        left == 1
                    }
                })
                .unwrap_or(false);
            if start_third {
                let job = THIRD_JOB.lock().unwrap_or_else(|e| e.into_inner()).take();
                if let Some(job) = job {
                    SECOND_WATCHES_THIRD.store(true, Ordering::SeqCst);
                    let mut rx = spawn_pair(job);
                    // (the watcher of this thread is told not to count it as asleep; the flag is
                    // read by the first thread only, the third one has no watcher of its own kind)
                    let st = match rx.finished_or_blocked_ignoring_flag() {
                        Ok(r) => PairState::RanInside(r),
                        Err(_) => PairState::Blocked(rx),
                    };
                    SECOND_WATCHES_THIRD.store(false, Ordering::SeqCst);
                    *THIRD_STATE.lock().unwrap_or_else(|e| e.into_inner()) = Some(st);
                }
            }
            let pause = PAUSE_AT.load(Ordering::SeqCst);
            if pause != 0 && b == pause {
                let job = PAIR_JOB.lock().unwrap_or_else(|e| e.into_inner()).take();
                if let Some(job) = job {
                    PAUSE_AT.store(0, Ordering::SeqCst);
                    let mut rx = spawn_pair(job);
                    // parked here: the second operation either finishes (it ran inside this
                    // one) or it does not (it waits for a lock this one holds)
                    let st = match rx.finished_or_blocked() {
                        Ok(r) => PairState::RanInside(r),
                        Err(_) => PairState::Blocked(rx),
                    };
                    if matches!(p, crate::verif_hooks::Point::LockIntent(_)) {
                        PAUSED_AT_LOCK_INTENT.store(true, Ordering::SeqCst);
                    }
                    *PAIR_STATE.lock().unwrap_or_else(|e| e.into_inner()) = Some(st);
                }
            }
        }
        if let crate::verif_hooks::Point::BeforeWrite(site) = p {
            let n = WRITES.fetch_add(1, Ordering::SeqCst) + 1;
            let _ = WRITE_SITES.try_with(|w| w.borrow_mut().push(site));
            let at = CRASH_AT.load(Ordering::SeqCst);
            if at != 0 && n == at {
                panic!("VERIF-CRASH {}", site);
            }
            // crash before the nth write of a named site
            let hit = {
                let mut g = CRASH_SITE.lock().unwrap_or_else(|e| e.into_inner());
                match g.as_mut() {
                    Some((name, left)) if name == site => {
                        if *left <= 1 {
                            *g = None;
                            true
                        } else {
                            *left -= 1;
                            false
                        }
                    }
                    _ => false,
                }
            };
            if hit {
                panic!("VERIF-CRASH {}", site);
            }
        }
    })));
}
static LOG_ON: AtomicBool = AtomicBool::new(false);

struct DiscardLogger;
impl log::Log for DiscardLogger {
    fn enabled(&self, _: &log::Metadata) -> bool {
        LOG_ON.load(Ordering::Relaxed)
    }
    fn log(&self, record: &log::Record) {
        if LOG_ON.load(Ordering::Relaxed) {
            // format the arguments (executes every expression in them), then discard
            use std::fmt::Write;
            let mut s = String::new();
            let _ = write!(s, "{}", record.args());
            if std::env::var_os("VSIM_LOG").is_some() {
                eprintln!("[{}] {}", record.level(), s);
            }
        }
    }
    fn flush(&self) {}
}
static LOGGER: DiscardLogger = DiscardLogger;

pub fn init_process(verbose_panics: bool) {
    crate::client::install_panic_hook(verbose_panics);
    let _ = log::set_logger(&LOGGER);
    log::set_max_level(log::LevelFilter::Off);
}

pub fn scratch_root() -> PathBuf {
    let base = std::env::var("VERIF_SCRATCH").unwrap_or_else(|_| {
        if std::path::Path::new("/dev/shm").is_dir() {
            "/dev/shm".to_string()
        } else {
            "/verif/scratch".to_string()
        }
    });
    PathBuf::from(base).join(format!("verif-{}", std::process::id()))
}

pub fn fresh_dir() -> PathBuf {
    let n = RUN_COUNTER.fetch_add(1, Ordering::SeqCst);
    let d = scratch_root().join(format!("run-{}", n));
    let _ = std::fs::remove_dir_all(&d);
    std::fs::create_dir_all(&d).expect("create scratch dir");
    d
}

pub fn cleanup_process() {
    let _ = std::fs::remove_dir_all(scratch_root());
}

/// Runs `f` on a fresh thread with deterministic entropy.
pub fn on_fresh_thread<R: Send + 'static>(seed: u64, f: impl FnOnce() -> R + Send + 'static) -> R {
    std::thread::Builder::new()
        .stack_size(64 << 20)
        .spawn(move || {
            entropy::install(seed);
            let r = f();
            entropy::uninstall();
            r
        })
        .expect("spawn")
        .join()
        .expect("simulation thread must not die")
}

pub fn execute(plan: &Plan, verbose: bool) -> Outcome {
    let has = |k: &str| plan.flags.iter().any(|f| f.starts_with(k));
    if has("pair_slot=") && !has("pair_mode=") {
        return execute_pair(plan, verbose);
    }
    execute_one(plan, verbose)
}

fn flag_u64(plan: &Plan, k: &str) -> Option<u64> {
    plan.flags.iter().find_map(|f| f.strip_prefix(k).and_then(|v| v.parse::<u64>().ok()))
}

pub const PAIR_OPS: [&str; 13] = [
    "set_scripts(all,[lock0@0])",
    "set_scripts(partial,[lock1@initial/3])",
    "set_scripts(delete,[lock0])",
    "set_scripts(all,[])",
    "get_scripts",
    "get_cells_capacity(lock0)",
    "get_cells(lock0)",
    "set_scripts(partial,[lock0@initial/2+1,lock1@0])",
    "get_transactions(lock0)",
    "handler: SendLastState from a connected peer (light-client protocol)",
    "handler: next BlockFilters batch from a proven peer (filter protocol)",
    "handler: SendBlock of a matched block (sync protocol)",
    "handler: SendLastStateProof answering an outstanding request (light-client protocol)",
];

/// C17: one case = (history, write boundary K of the operation A that issues it, operation B).
/// Three executions of the same deterministic history: B right before A, B right after A, and
/// B started on a second thread while A is parked before write K. The outcome of the third
/// must equal one of the first two, B's answer must be one of its two serial answers, and
/// both threads must finish.
pub fn execute_pair(plan: &Plan, verbose: bool) -> Outcome {
    let slot = flag_u64(plan, "pair_slot=").unwrap_or(0);
    let op = flag_u64(plan, "pair_op=").unwrap_or(0) % 13;
    let mut bp = plan.clone();
    bp.flags.retain(|f| !f.starts_with("pair_"));
    bp.flags.push("record_writes".into());
    let mut base = execute_one(&bp, false);
    base.violations.clear();
    let mut ks: Vec<(u64, u64, String)> = Vec::new();
    for (e, w0, w1, kind) in base.event_writes.iter() {
        if kind.starts_with("recv.") || kind.starts_with("timer.") || kind.starts_with("user.") {
            for k in *w0..=*w1 {
                ks.push((k, *e, kind.clone()));
            }
        }
    }
    if ks.is_empty() || base.harness_error.is_some() {
        base.stats.insert("probe.c17.history_without_writes".into(), 1);
        return base;
    }
    // alternate between storage-write boundaries and lock intents (there are many more of the
    // latter: every filter timer tick takes the lock)
    let want_lock = slot % 3 == 2;
    let pool: Vec<(u64, u64, String)> = ks
        .iter()
        .filter(|(k, _, _)| base.bound_is_lock.get(*k as usize - 1).cloned().unwrap_or(false) == want_lock)
        .cloned()
        .collect();
    let mut pool = if pool.is_empty() { ks.clone() } else { pool };
    if slot % 2 == 1 {
        // every other slot: stratified by site - the sites that occur least often in this history
        // come first (a fork rollback's lock is taken once, the filter timer's on every tick)
        let mut count: BTreeMap<String, u64> = BTreeMap::new();
        for (k, _, _) in ks.iter() {
            *count.entry(base.bound_names.get(*k as usize - 1).cloned().unwrap_or_default()).or_insert(0) += 1;
        }
        // (first the boundaries met while a stored matched-blocks record is not in memory - the
        // state after a restart or a rollback, in which the next operation recovers or discards it)
        // then by how rare the *site* is in this history (whatever the state), then the state
        let mut per_site: BTreeMap<String, u64> = BTreeMap::new();
        for (n, c) in count.iter() {
            *per_site.entry(n.split('[').next().unwrap_or("").to_string()).or_insert(0) += *c;
        }
        let mut names: Vec<(u64, u64, u64, String)> = count
            .into_iter()
            .map(|(n, c)| {
                let site = per_site.get(n.split('[').next().unwrap_or("")).cloned().unwrap_or(c);
                (if n.contains("[R-") { 0 } else { 1 }, site, c, n)
            })
            .collect();
        names.sort();
        // The paired operation takes part in the choice. Even operations (set_scripts(all),
        // set_scripts(delete), the readers, the BlockFilters and proof handlers) all meet the
        // rarest site of the history (a fork rollback's lock is taken once). Odd operations (the
        // other set_scripts variants, SendLastState and SendBlock handlers) share three names of
        // the list that puts the not-yet-recovered state first.
        let name = if op % 2 == 0 {
            let mut by_rarity: Vec<(u64, u64, String)> = names.iter().map(|(_, site, c, n)| (*site, *c, n.clone())).collect();
            by_rarity.sort();
            by_rarity[((slot / 2) % by_rarity.len() as u64) as usize].2.clone()
        } else {
            names[(((slot / 2) * 3 + (op / 2) % 3) % names.len() as u64) as usize].3.clone()
        };
        let by_site: Vec<(u64, u64, String)> = ks
            .iter()
            .filter(|(k, _, _)| base.bound_names.get(*k as usize - 1).map(|n| *n == name).unwrap_or(false))
            .cloned()
            .collect();
        if !by_site.is_empty() {
            pool = by_site;
        }
    }
    let (k, e, kind) = pool[((slot.wrapping_mul(7919) + 13) % pool.len() as u64) as usize].clone();
    if let Some(op2) = flag_u64(plan, "pair_op2=") {
        let rand = flag_u64(plan, "pair_rand=");
        return execute_triple(plan, verbose, base, (k, e, kind), op, op2 % 13, slot, rand);
    }
    let mut outs = Vec::new();
    for mode in ["before", "after", "during"] {
        let mut p = plan.clone();
        p.flags.retain(|f| !f.starts_with("pair_"));
        p.flags.push(format!("pair_event={}", e));
        p.flags.push(format!("pair_write={}", k));
        p.flags.push(format!("pair_mode={}", mode));
        p.flags.push(format!("pair_op={}", op));
        outs.push(execute_one(&p, verbose && mode == "during"));
    }
    let during = outs.pop().unwrap();
    let after = outs.pop().unwrap();
    let before = outs.pop().unwrap();
    let mut out = during;
    let own: Vec<Violation> = out.violations.iter().filter(|v| v.property == "C17").cloned().collect();
    out.violations = own;
    for o in [&before, &after] {
        if out.harness_error.is_none() {
            out.harness_error = o.harness_error.clone();
        }
    }
    let mut stats: BTreeMap<String, u64> = BTreeMap::new();
    stats.insert("probe.c17.cases".into(), 1);
    for k in ["probe.c17.no_such_message_now", "probe.c17.same_protocol_not_paired"] {
        if before.stats.contains_key(k) {
            stats.insert(k.into(), 1);
        }
    }
    if op >= 9 && before.snapshot.is_some() {
        stats.insert("probe.c17.handler_against_handler".into(), 1);
    }
    if out.stats.contains_key("probe.c17.paused_before_taking_the_lock") {
        stats.insert("probe.c17.paused_before_taking_the_lock".into(), 1);
    }
    stats.insert(format!("c17.A.{}", kind), 1);
    stats.insert(format!("c17.B.{}", PAIR_OPS[op as usize]), 1);
    stats.insert(format!("c17.at.{}", base.bound_names.get(k as usize - 1).cloned().unwrap_or_default()), 1);
    let what = format!(
        "A = {} (event {}, parked before write {}), B = {}",
        kind, e, k, PAIR_OPS[op as usize]
    );
    if out.harness_error.is_none() && out.violations.is_empty() {
        match (&before.snapshot, &after.snapshot, &out.snapshot) {
            (Some(b), Some(a), Some(d)) => {
                if b != a {
                    stats.insert("probe.c17.order_matters".into(), 1);
                }
                if d != a && d != b {
                    out.violations.push(Violation {
                        property: "C17".into(),
                        clause: "outcome_matches_no_serial_order".into(),
                        detail: format!("{}: concurrent outcome {} ; B;A gives {} ; A;B gives {}", what, d, b, a),
                        at_event: e,
                        at_time: out.vtime,
                    });
                }
            }
            _ => {
                // A ended the process in one of the executions (documented abort): nothing to compare
                stats.insert("probe.c17.no_snapshot".into(), 1);
            }
        }
        if let (Some((_, rb)), Some((_, ra)), Some((inside, rd))) = (&before.pair_answer, &after.pair_answer, &out.pair_answer) {
            stats.insert(if *inside { "probe.c17.ran_inside".into() } else { "probe.c17.blocked_until_A_finished".into() }, 1);
            // A reader that runs inside A sees the state between two of A's writes. Every write is
            // one atomic batch (one block, one script set, ...), so that state is a point in time
            // of the index; whether a reader is torn *inside itself* would need the reader to be
            // parked mid-iteration, which is not built. Only set_scripts answers are compared.
            if op < 4 || op == 7 {
                if rd != ra && rd != rb {
                    out.violations.push(Violation {
                        property: "C17".into(),
                        clause: "answer_from_no_single_point_in_time".into(),
                        detail: format!("{}: concurrent answer {} ; before A {} ; after A {}", what, rd, rb, ra),
                        at_event: e,
                        at_time: out.vtime,
                    });
                }
            } else if rd != ra && rd != rb {
                stats.insert("probe.c17.reader_saw_state_between_two_writes_of_A".into(), 1);
            }
        }
    }
    // Readers: a fourth execution parks the reader inside its query (at one of its iteration
    // points), runs A to completion and lets the reader finish: its answer must be the one it
    // gives before A or the one it gives after A (an index and a tip from one point in time).
    if matches!(op, 5 | 6 | 8) && out.harness_error.is_none() {
        // ... and, so that both the index and the tip can move while the reader is parked, A is
        // followed by `span` further events of the history (0, 25 or 50)
        let span = (slot % 3) * 25;
        let run = |mode: &str| {
            let mut p = plan.clone();
            p.flags.retain(|f| !f.starts_with("pair_"));
            p.flags.push(format!("pair_event={}", e));
            p.flags.push(format!("pair_write={}", k));
            p.flags.push(format!("pair_mode={}", mode));
            p.flags.push(format!("pair_op={}", op));
            p.flags.push(format!("pair_span={}", span));
            execute_one(&p, false)
        };
        let after_span = if span == 0 { None } else { Some(run("after_span")) };
        let mid = run("reader_mid");
        for o in std::iter::once(&mid).chain(after_span.iter()) {
            if out.harness_error.is_none() {
                out.harness_error = o.harness_error.clone();
            }
        }
        for v in mid.violations.iter().filter(|v| v.property == "C17") {
            out.violations.push(v.clone());
        }
        let ref_after = after_span.as_ref().map(|o| &o.pair_answer).unwrap_or(&after.pair_answer);
        if let (Some((_, rb)), Some((_, ra)), Some((parked, rm))) = (&before.pair_answer, ref_after, &mid.pair_answer) {
            if *parked {
                stats.insert("probe.c17.reader_parked_inside_its_query".into(), 1);
                if rb != ra {
                    stats.insert("probe.c17.reader_answer_depends_on_what_ran_meanwhile".into(), 1);
                }
            }
            if rm != rb && rm != ra {
                out.violations.push(Violation {
                    property: "C17".into(),
                    clause: "reader_answer_from_no_single_point_in_time".into(),
                    detail: format!("{} followed by {} more events: the reader was parked inside its query meanwhile; its answer {} ; before {} ; after {}", what, span, rm, rb, ra),
                    at_event: e,
                    at_time: out.vtime,
                });
            }
        }
        out.events += mid.events;
    }
    out.stats = stats;
    // the three executions are functions of the plan; whether B was seen blocked is too, on
    // the unchanged tree (B waits for A's lock), so it is part of the trace hash
    out.trace_hash = entropy::mix(&[before.trace_hash, after.trace_hash, out.snapshot.as_ref().map(|s| crate::entropy::hash_str(s)).unwrap_or(0)]);
    out.events = before.events + after.events + out.events;
    out
}

/// C17, three threads: A is parked before boundary K, B is started on a second thread and is
/// itself parked before its n-th own boundary, where C is started on a third thread; then B
/// and A are released in that order. The outcome must be the outcome of one of the six serial
/// orders of A, B and C (each executed on the same deterministic history), and all three finish.
fn execute_triple(plan: &Plan, verbose: bool, base: Outcome, at: (u64, u64, String), op: u64, op2: u64, slot: u64, rand: Option<u64>) -> Outcome {
    let (k, e, kind) = at;
    let park_b = 1 + (slot / 3) % 3;
    let run = |mode: &str, verbose: bool| {
        let mut p = plan.clone();
        p.flags.retain(|f| !f.starts_with("pair_"));
        p.flags.push(format!("pair_event={}", e));
        p.flags.push(format!("pair_write={}", k));
        p.flags.push(format!("pair_mode={}", mode));
        p.flags.push(format!("pair_op={}", op));
        p.flags.push(format!("pair_op2={}", op2));
        p.flags.push(format!("pair_park2={}", park_b));
        if let Some(r) = rand {
            p.flags.push(format!("pair_rand={}", r));
            if let Some(op3) = flag_u64(plan, "pair_op3=") {
                p.flags.push(format!("pair_op3={}", op3));
            }
        }
        execute_one(&p, verbose)
    };
    let orders = ["serial:BC|", "serial:CB|", "serial:B|C", "serial:C|B", "serial:|BC", "serial:|CB"];
    let serial: Vec<Outcome> = orders.iter().map(|m| run(m, false)).collect();
    let mut out = run(if rand.is_some() { "rand" } else { "triple" }, verbose);
    let own: Vec<Violation> = out.violations.iter().filter(|v| v.property == "C17").cloned().collect();
    out.violations = own;
    for o in serial.iter() {
        if out.harness_error.is_none() {
            out.harness_error = o.harness_error.clone();
        }
    }
    let mut stats: BTreeMap<String, u64> = BTreeMap::new();
    stats.insert("probe.c17.cases".into(), 1);
    stats.insert(if rand.is_some() { "probe.c17.random_schedule_cases".into() } else { "probe.c17.three_thread_cases".into() }, 1);
    for (k, v) in out.stats.iter() {
        if k.starts_with("c17.rand.") || k.starts_with("probe.c17.rand.") {
            stats.insert(k.clone(), *v);
        }
    }
    for k in [
        "probe.c17.no_such_message_now",
        "probe.c17.same_protocol_not_paired",
        "probe.c17.third_ran_inside_second",
        "probe.c17.third_blocked",
        "probe.c17.third_ran_last",
        "probe.c17.paused_before_taking_the_lock",
    ] {
        if out.stats.contains_key(k) || serial[0].stats.contains_key(k) {
            stats.insert(k.into(), 1);
        }
    }
    stats.insert(format!("c17.A.{}", kind), 1);
    stats.insert(format!("c17.B.{}", PAIR_OPS[op as usize]), 1);
    stats.insert(format!("c17.C.{}", PAIR_OPS[op2 as usize]), 1);
    let what = if let Some(r) = rand {
        format!(
            "A = {} (event {}), B = {}, C = {}{}; seeded schedule {} over all boundaries: {}",
            kind,
            e,
            PAIR_OPS[op as usize],
            PAIR_OPS[op2 as usize],
            flag_u64(plan, "pair_op3=").map(|o| format!(", D = {}", PAIR_OPS[(o % 13) as usize])).unwrap_or_default(),
            r,
            out.schedule.clone().unwrap_or_default()
        )
    } else {
        format!(
            "A = {} (event {}, parked before boundary {}), B = {} (parked before its boundary {}), C = {}",
            kind, e, k, PAIR_OPS[op as usize], park_b, PAIR_OPS[op2 as usize]
        )
    };
    if out.harness_error.is_none() && out.violations.is_empty() {
        let snaps: Vec<Option<&String>> = serial.iter().map(|o| o.snapshot.as_ref()).collect();
        if let (Some(d), true) = (out.snapshot.as_ref(), snaps.iter().all(|s| s.is_some())) {
            let distinct: std::collections::BTreeSet<&String> = snaps.iter().map(|s| s.unwrap()).collect();
            if distinct.len() > 1 {
                stats.insert("probe.c17.order_matters".into(), 1);
            }
            if distinct.len() > 2 {
                stats.insert("probe.c17.three_orders_differ".into(), 1);
            }
            if !distinct.contains(d) {
                let listing: Vec<String> = orders.iter().zip(snaps.iter()).map(|(m, s)| format!("{} gives {}", m, s.unwrap())).collect();
                out.violations.push(Violation {
                    property: "C17".into(),
                    clause: "outcome_matches_no_serial_order".into(),
                    detail: format!("{}: concurrent outcome {} ; {}", what, d, listing.join(" ; ")),
                    at_event: e,
                    at_time: out.vtime,
                });
            }
        } else {
            stats.insert("probe.c17.no_snapshot".into(), 1);
        }
    }
    out.stats = stats;
    let mut hs: Vec<u64> = serial.iter().map(|o| o.trace_hash).collect();
    hs.push(out.snapshot.as_ref().map(|s| crate::entropy::hash_str(s)).unwrap_or(0));
    hs.push(out.schedule.as_ref().map(|s| crate::entropy::hash_str(s)).unwrap_or(0));
    out.trace_hash = entropy::mix(&hs);
    out.events += serial.iter().map(|o| o.events).sum::<u64>();
    let _ = base;
    out
}

pub fn execute_one(plan: &Plan, verbose: bool) -> Outcome {
    let plan = plan.clone();
    let seed = entropy::mix(&[plan.seed, 0xe17]);
    on_fresh_thread(seed, move || {
        if plan.trace_logging || std::env::var_os("VSIM_LOG").is_some() {
            LOG_ON.store(true, Ordering::SeqCst);
            log::set_max_level(log::LevelFilter::Trace);
        } else {
            LOG_ON.store(false, Ordering::SeqCst);
            log::set_max_level(log::LevelFilter::Off);
        }
        let dir = fresh_dir();
        install_write_hook();
        WRITES.store(0, Ordering::SeqCst);
        BOUNDS.store(0, Ordering::SeqCst);
        BOUND_IS_LOCK.with(|v| v.borrow_mut().clear());
        BOUND_NAMES.with(|v| v.borrow_mut().clear());
        BOUND_CONTEXT.with(|c| c.borrow_mut().clear());
        WRITE_SITES.with(|w| w.borrow_mut().clear());
        let crash_at = plan
            .flags
            .iter()
            .find_map(|f| f.strip_prefix("crash_at=").and_then(|v| v.parse::<u64>().ok()))
            .unwrap_or(0);
        CRASH_AT.store(crash_at, Ordering::SeqCst);
        *CRASH_SITE.lock().unwrap_or_else(|e| e.into_inner()) = plan
            .flags
            .iter()
            .find_map(|f| f.strip_prefix("crash_site="))
            .and_then(|v| {
                let mut it = v.split(':');
                Some((it.next()?.to_string(), it.next().and_then(|n| n.parse().ok()).unwrap_or(1)))
            });
        let mut sim = Sim::new(plan.clone(), dir.clone(), verbose);
        sim.run();
        CRASH_AT.store(0, Ordering::SeqCst);
        sim.stat_add("writes_total", WRITES.load(Ordering::SeqCst));
        let sites: Vec<&'static str> = WRITE_SITES.with(|w| w.borrow().clone());
        let out = Outcome {
            seed: plan.seed,
            events: sim.events,
            vtime: sim.now,
            trace_hash: sim.trace_hash,
            violations: sim.violations.clone(),
            stats: sim.stats.clone(),
            harness_error: sim.harness_error.clone(),
            coverage: std::mem::take(&mut sim.coverage),
            trace: sim.trace.take().unwrap_or_default(),
            entropy_calls: entropy::calls(),
            write_sites: sites.iter().map(|s| s.to_string()).collect(),
            event_writes: std::mem::take(&mut sim.event_writes),
            bound_is_lock: BOUND_IS_LOCK.with(|v| v.borrow().clone()),
            bound_names: BOUND_NAMES.with(|v| v.borrow().clone()),
            snapshot: sim.snapshot.take(),
            pair_answer: sim.pair_answer.take(),
            schedule: sim.schedule.take(),
        };
        drop(sim);
        let _ = std::fs::remove_dir_all(&dir);
        log::set_max_level(log::LevelFilter::Off);
        LOG_ON.store(false, Ordering::SeqCst);
        out
    })
}

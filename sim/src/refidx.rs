//! Independent reference indexer + RPC audit (oracle of C03 / C04 / C09 and the end-to-end
//! clauses of C06 / C08): what `get_cells`, `get_transactions` and `get_cells_capacity`
//! have to answer, computed from the ground-truth chain alone.

use std::collections::{BTreeMap, BTreeSet, HashMap};

use ckb_types::{
    bytes::Bytes,
    core::Capacity,
    packed::{self, Byte32, OutPoint, Script},
    prelude::*,
};
use serde_json::{json, Value};

use crate::chain::World;
use crate::client::{Client, Unwind};
use crate::plan::ScriptRef;

#[derive(Clone, Debug, PartialEq, Eq, Hash, PartialOrd, Ord)]
pub struct ScriptKey {
    pub script: Vec<u8>,
    pub is_type: bool,
}

impl ScriptKey {
    pub fn new(script: &Script, is_type: bool) -> Self {
        ScriptKey {
            script: script.as_slice().to_vec(),
            is_type,
        }
    }
    pub fn script(&self) -> Script {
        Script::from_slice(&self.script).expect("script")
    }
    pub fn short(&self) -> String {
        let s = self.script();
        format!(
            "{}:{}..{:x}",
            if self.is_type { "type" } else { "lock" },
            &format!("{:x}", s.code_hash())[..6],
            s.args().raw_data()
        )
    }
}

pub fn resolve_script(world: &World, r: &ScriptRef) -> (Script, bool) {
    match r {
        ScriptRef::Lock(i) => (world.locks[i % world.locks.len()].clone(), false),
        ScriptRef::Type(i) => {
            if world.types.is_empty() {
                (world.locks[i % world.locks.len()].clone(), false)
            } else {
                (world.types[i % world.types.len()].clone(), true)
            }
        }
    }
}

/// The canonical chain as the client sees it: the path from genesis to `tip_hash`.
pub fn canonical_path(world: &World, tip_hash: &Byte32) -> Option<Vec<usize>> {
    let mut id = *world.by_hash.get(tip_hash)?;
    let mut path = vec![id];
    while let Some(p) = world.blocks[id].parent {
        path.push(p);
        id = p;
    }
    path.reverse();
    Some(path)
}

#[derive(Clone, Debug)]
pub struct TrueCell {
    pub number: u64,
    pub tx_index: u32,
    pub out_index: u32,
    pub tx_hash: Byte32,
    pub output: packed::CellOutput,
    pub data: Bytes,
    /// canonical block that spends it
    pub spent_in: Option<u64>,
}

#[derive(Clone, Debug, PartialEq, Eq, PartialOrd, Ord)]
pub struct TrueEntry {
    pub number: u64,
    pub tx_index: u32,
    pub io_index: u32,
    pub is_input: bool,
    pub tx_hash: Vec<u8>,
    /// for inputs: the block that created the spent cell
    pub created_in: u64,
}

/// Everything on the canonical path that touches `key`.
pub struct Truth {
    pub cells: Vec<TrueCell>,
    pub entries: Vec<TrueEntry>,
}

pub fn truth_for(world: &World, path: &[usize], key: &ScriptKey) -> Truth {
    let script = key.script();
    let matches = |out: &packed::CellOutput| -> bool {
        if key.is_type {
            out.type_().to_opt().map(|t| t == script).unwrap_or(false)
        } else {
            out.lock() == script
        }
    };
    let mut cells: Vec<TrueCell> = Vec::new();
    let mut by_op: HashMap<OutPoint, usize> = HashMap::new();
    let mut entries = Vec::new();
    for id in path {
        let blk = &world.blocks[*id].view;
        let number = blk.number();
        for (ti, tx) in blk.transactions().into_iter().enumerate() {
            if !tx.is_cellbase() {
                for (ii, op) in tx.input_pts_iter().enumerate() {
                    if let Some(ci) = by_op.get(&op) {
                        cells[*ci].spent_in = Some(number);
                        entries.push(TrueEntry {
                            number,
                            tx_index: ti as u32,
                            io_index: ii as u32,
                            is_input: true,
                            tx_hash: tx.hash().as_slice().to_vec(),
                            created_in: cells[*ci].number,
                        });
                    }
                }
            }
            for (oi, out) in tx.outputs().into_iter().enumerate() {
                if matches(&out) {
                    by_op.insert(OutPoint::new(tx.hash(), oi as u32), cells.len());
                    cells.push(TrueCell {
                        number,
                        tx_index: ti as u32,
                        out_index: oi as u32,
                        tx_hash: tx.hash(),
                        output: out,
                        data: tx.outputs_data().get(oi).unwrap().raw_data(),
                        spent_in: None,
                    });
                    entries.push(TrueEntry {
                        number,
                        tx_index: ti as u32,
                        io_index: oi as u32,
                        is_input: false,
                        tx_hash: tx.hash().as_slice().to_vec(),
                        created_in: number,
                    });
                }
            }
        }
    }
    Truth { cells, entries }
}

fn hex_u64(v: &Value) -> Option<u64> {
    let s = v.as_str()?;
    u64::from_str_radix(s.trim_start_matches("0x"), 16).ok()
}

fn hex_bytes(v: &Value) -> Option<Vec<u8>> {
    let s = v.as_str()?.trim_start_matches("0x");
    if s.len() % 2 != 0 {
        return None;
    }
    (0..s.len() / 2)
        .map(|i| u8::from_str_radix(&s[2 * i..2 * i + 2], 16).ok())
        .collect()
}

pub fn script_json(s: &Script) -> Value {
    let js: ckb_jsonrpc_types::Script = s.clone().into();
    serde_json::to_value(js).unwrap()
}

pub fn search_key(key: &ScriptKey) -> Value {
    json!({
        "script": script_json(&key.script()),
        "script_type": if key.is_type { "type" } else { "lock" },
    })
}

#[derive(Clone, Debug, PartialEq, Eq, PartialOrd, Ord)]
pub struct GotCell {
    pub number: u64,
    pub tx_index: u32,
    pub out_index: u32,
    pub tx_hash: Vec<u8>,
    pub output: String,
    pub data: Vec<u8>,
    pub capacity: u64,
}

#[derive(Clone, Debug, PartialEq, Eq, PartialOrd, Ord)]
pub struct GotEntry {
    pub number: u64,
    pub tx_index: u32,
    pub io_index: u32,
    pub is_input: bool,
    pub tx_hash: Vec<u8>,
}

pub struct AuditResult {
    pub cells: Vec<GotCell>,
    pub entries: Vec<GotEntry>,
    pub capacity: u64,
    pub cap_block_hash: Vec<u8>,
    pub cap_block_number: u64,
    pub pages: u64,
}

/// Pages through the three queries for one script. `limit` is the page size.
pub(crate) fn audit_script(
    client: &mut Client,
    key: &ScriptKey,
    limit: u64,
) -> Result<Result<AuditResult, String>, Unwind> {
    let mut pages = 0;
    let mut cells = Vec::new();
    let mut cursor: Option<Value> = None;
    loop {
        let params = json!([
            search_key(key),
            "asc",
            format!("{:#x}", limit),
            cursor.clone().unwrap_or(Value::Null)
        ]);
        let r = match client.rpc("get_cells", params)? {
            Ok(v) => v,
            Err(e) => return Ok(Err(format!("get_cells error {}", e))),
        };
        pages += 1;
        let objs = r["objects"].as_array().cloned().unwrap_or_default();
        for o in &objs {
            let cell = (|| -> Option<GotCell> {
                Some(GotCell {
                    number: hex_u64(&o["block_number"])?,
                    tx_index: hex_u64(&o["tx_index"])? as u32,
                    out_index: hex_u64(&o["out_point"]["index"])? as u32,
                    tx_hash: hex_bytes(&o["out_point"]["tx_hash"])?,
                    output: o["output"].to_string(),
                    data: hex_bytes(&o["output_data"])?,
                    capacity: hex_u64(&o["output"]["capacity"])?,
                })
            })();
            match cell {
                Some(c) => cells.push(c),
                None => return Ok(Err(format!("unparsable cell {}", o))),
            }
        }
        if (objs.len() as u64) < limit {
            break;
        }
        cursor = Some(r["last_cursor"].clone());
        if pages > 10_000 {
            return Ok(Err("get_cells paging does not terminate".into()));
        }
    }
    let mut entries = Vec::new();
    let mut cursor: Option<Value> = None;
    loop {
        let params = json!([
            search_key(key),
            "asc",
            format!("{:#x}", limit),
            cursor.clone().unwrap_or(Value::Null)
        ]);
        let r = match client.rpc("get_transactions", params)? {
            Ok(v) => v,
            Err(e) => return Ok(Err(format!("get_transactions error {}", e))),
        };
        pages += 1;
        let objs = r["objects"].as_array().cloned().unwrap_or_default();
        for o in &objs {
            let e = (|| -> Option<GotEntry> {
                Some(GotEntry {
                    number: hex_u64(&o["block_number"])?,
                    tx_index: hex_u64(&o["tx_index"])? as u32,
                    io_index: hex_u64(&o["io_index"])? as u32,
                    is_input: o["io_type"].as_str()? == "input",
                    tx_hash: hex_bytes(&o["transaction"]["hash"])?,
                })
            })();
            match e {
                Some(e) => entries.push(e),
                None => return Ok(Err(format!("unparsable tx entry {}", o))),
            }
        }
        if (objs.len() as u64) < limit {
            break;
        }
        cursor = Some(r["last_cursor"].clone());
        if pages > 10_000 {
            return Ok(Err("get_transactions paging does not terminate".into()));
        }
    }
    let r = match client.rpc("get_cells_capacity", json!([search_key(key)]))? {
        Ok(v) => v,
        Err(e) => return Ok(Err(format!("get_cells_capacity error {}", e))),
    };
    let capacity = hex_u64(&r["capacity"]).unwrap_or(u64::MAX);
    let cap_block_hash = hex_bytes(&r["block_hash"]).unwrap_or_default();
    let cap_block_number = hex_u64(&r["block_number"]).unwrap_or(u64::MAX);
    Ok(Ok(AuditResult {
        cells,
        entries,
        capacity,
        cap_block_hash,
        cap_block_number,
        pages,
    }))
}

/// Which blocks of the canonical chain a script is required to have examined.
#[derive(Clone, Debug, Default)]
pub struct Coverage {
    /// half-open (lo, hi] ranges
    pub ranges: Vec<(u64, u64)>,
    pub genesis: bool,
}

impl Coverage {
    pub fn contains(&self, b: u64) -> bool {
        if b == 0 {
            return self.genesis;
        }
        self.ranges.iter().any(|(lo, hi)| *lo < b && b <= *hi)
    }
    /// An input entry in block `b` can only be recorded if the creating transaction was known
    /// when `b` was examined: `created` must lie in the same or an earlier registration range
    /// than a range that contains `b` (ranges are kept in chronological order).
    pub fn input_required(&self, b: u64, created: u64) -> bool {
        let has = |i: usize, n: u64| -> bool {
            if n == 0 {
                return self.genesis;
            }
            let (lo, hi) = self.ranges[i];
            lo < n && n <= hi
        };
        for i in 0..self.ranges.len() {
            if has(i, b) {
                for j in 0..=i {
                    if has(j, created) {
                        return true;
                    }
                }
            }
        }
        false
    }
    pub fn truncate(&mut self, h: u64) {
        for r in self.ranges.iter_mut() {
            if r.1 > h {
                r.1 = h;
            }
        }
        self.ranges.retain(|r| r.0 < r.1);
    }
    pub fn add(&mut self, lo: u64, hi: u64) {
        if lo < hi {
            self.ranges.push((lo, hi));
        }
    }
}

/// `get_cells` / `get_transactions` are prefix searches on the script args: the answer may
/// contain items of other scripts of the same family. Splits the answer into the items of
/// exactly `key` and the rest; items whose transaction does not exist anywhere are kept (they
/// are reported as phantoms by `compare`).
pub fn exact_items(world: &World, key: &ScriptKey, got: &AuditResult) -> (Vec<GotCell>, Vec<GotEntry>) {
    let script = key.script();
    let matches = |out: &packed::CellOutput| -> bool {
        if key.is_type {
            out.type_().to_opt().map(|t| t == script).unwrap_or(false)
        } else {
            out.lock() == script
        }
    };
    let find_tx = |h: &Vec<u8>| -> Option<&ckb_types::core::TransactionView> {
        if h.len() != 32 {
            return None;
        }
        world.txs.get(&Byte32::from_slice(h).ok()?)
    };
    let mut cells = Vec::new();
    for c in &got.cells {
        match find_tx(&c.tx_hash).and_then(|tx| tx.outputs().get(c.out_index as usize)) {
            Some(out) => {
                if matches(&out) {
                    cells.push(c.clone());
                }
            }
            None => cells.push(c.clone()),
        }
    }
    let mut entries = Vec::new();
    for e in &got.entries {
        let out = find_tx(&e.tx_hash).and_then(|tx| {
            if e.is_input {
                let op = tx.inputs().get(e.io_index as usize)?.previous_output();
                world
                    .txs
                    .get(&op.tx_hash())
                    .and_then(|ptx| ptx.outputs().get(Unpack::<u32>::unpack(&op.index()) as usize))
            } else {
                tx.outputs().get(e.io_index as usize)
            }
        });
        match out {
            Some(out) => {
                if matches(&out) {
                    entries.push(e.clone());
                }
            }
            None => entries.push(e.clone()),
        }
    }
    (cells, entries)
}

/// Compares one script's RPC answers with the truth. Returns (clause, detail) findings.
pub fn compare(
    world: &World,
    key: &ScriptKey,
    truth: &Truth,
    got: &AuditResult,
    required: &Coverage,
    progress: u64,
    tip_number: u64,
    tip_hash: &Byte32,
) -> Vec<(String, String, u64)> {
    let mut out: Vec<(String, String, u64)> = Vec::new();
    let name = key.short();
    // index the truth
    let mut true_cells: BTreeMap<(Vec<u8>, u32), &TrueCell> = BTreeMap::new();
    for c in &truth.cells {
        true_cells.insert((c.tx_hash.as_slice().to_vec(), c.out_index), c);
    }
    let mut seen: BTreeSet<(Vec<u8>, u32)> = BTreeSet::new();
    let mut sum: u64 = 0;
    for g in &got.cells {
        sum = sum.wrapping_add(g.capacity);
    }
    let (exact_cells, exact_entries) = exact_items(world, key, got);
    for g in &exact_cells {
        let k = (g.tx_hash.clone(), g.out_index);
        if !seen.insert(k.clone()) {
            out.push((
                "duplicate_cell".into(),
                format!("{}: cell {:?} returned twice", name, k.1),
                g.number,
            ));
        }
        match true_cells.get(&k) {
            None => out.push((
                "phantom_cell".into(),
                format!(
                    "{}: get_cells returned a cell that is not on the canonical chain (block {}, tx {}, out {})",
                    name, g.number, g.tx_index, g.out_index
                ),
                g.number,
            )),
            Some(t) => {
                let js: ckb_jsonrpc_types::CellOutput = t.output.clone().into();
                let expect = serde_json::to_value(js).unwrap().to_string();
                if t.number != g.number
                    || t.tx_index != g.tx_index
                    || expect != g.output
                    || t.data.as_ref() != g.data.as_slice()
                {
                    out.push((
                        "wrong_cell_fields".into(),
                        format!(
                            "{}: cell out {} reported at block {} tx {} but truly at block {} tx {} (or output/data differ)",
                            name, g.out_index, g.number, g.tx_index, t.number, t.tx_index
                        ),
                        g.number,
                    ));
                }
                if let Some(sp) = t.spent_in {
                    // cells created outside the script's own range are by-products of other
                    // scripts' matched blocks: allowed, but their liveness is not judged
                    if sp <= progress && required.contains(sp) && required.contains(t.number) {
                        out.push((
                            if required.contains(t.number) {
                                "spent_cell_reported_live".into()
                            } else {
                                // the cell itself lies outside the script's own range (it was
                                // indexed as a by-product of another script's matched block)
                                "spent_cell_outside_own_range_reported_live".into()
                            },
                            format!(
                                "{}: cell created in block {} (tx {}, out {}) was spent in block {} <= progress {} but is still returned [created={}]",
                                name, t.number, t.tx_index, t.out_index, sp, progress, t.number
                            ),
                            sp,
                        ));
                    }
                }
            }
        }
    }
    for t in &truth.cells {
        let unspent = t.spent_in.map(|s| s > tip_number).unwrap_or(true);
        if required.contains(t.number) && t.number <= progress && unspent {
            let k = (t.tx_hash.as_slice().to_vec(), t.out_index);
            if !seen.contains(&k) {
                out.push((
                    "missing_live_cell".into(),
                    format!(
                        "{}: live cell created in block {} (tx {}, out {}) is not returned; progress {}",
                        name, t.number, t.tx_index, t.out_index, progress
                    ),
                    t.number,
                ));
            }
        }
    }
    // transactions
    let true_entries: BTreeSet<(u64, u32, u32, bool, Vec<u8>)> = truth
        .entries
        .iter()
        .map(|e| (e.number, e.tx_index, e.io_index, e.is_input, e.tx_hash.clone()))
        .collect();
    let mut got_entries: BTreeSet<(u64, u32, u32, bool, Vec<u8>)> = BTreeSet::new();
    for e in &exact_entries {
        let k = (e.number, e.tx_index, e.io_index, e.is_input, e.tx_hash.clone());
        if !got_entries.insert(k.clone()) {
            out.push((
                "duplicate_tx_entry".into(),
                format!("{}: history entry block {} tx {} returned twice", name, e.number, e.tx_index),
                e.number,
            ));
        }
        if !true_entries.contains(&k) {
            out.push((
                "phantom_tx_entry".into(),
                format!(
                    "{}: get_transactions returned block {} tx {} io {} {} which is not on the canonical chain",
                    name,
                    e.number,
                    e.tx_index,
                    e.io_index,
                    if e.is_input { "input" } else { "output" }
                ),
                e.number,
            ));
        }
    }
    for e in &truth.entries {
        if !(required.contains(e.number) && e.number <= progress) {
            continue;
        }
        if e.is_input && !(required.input_required(e.number, e.created_in) && e.created_in <= progress) {
            // the client cannot resolve a cell it was never asked to know
            continue;
        }
        let k = (e.number, e.tx_index, e.io_index, e.is_input, e.tx_hash.clone());
        if !got_entries.contains(&k) {
            out.push((
                "missing_tx_entry".into(),
                format!(
                    "{}: block {} tx {} io {} {} touches the script but is not in get_transactions; progress {} (cell created in {}, required ranges {:?})",
                    name,
                    e.number,
                    e.tx_index,
                    e.io_index,
                    if e.is_input { "input" } else { "output" },
                    progress,
                    e.created_in,
                    required.ranges
                ),
                e.number,
            ));
        }
    }
    if got.capacity != sum {
        out.push((
            "capacity_mismatch".into(),
            format!(
                "{}: get_cells_capacity {} != sum over get_cells {}",
                name, got.capacity, sum
            ),
            0,
        ));
    }
    if got.cap_block_number != tip_number || got.cap_block_hash != tip_hash.as_slice() {
        out.push((
            "capacity_tip_mismatch".into(),
            format!(
                "{}: get_cells_capacity names block {} but the tip is {}",
                name, got.cap_block_number, tip_number
            ),
            0,
        ));
    }
    out
}

//! Per-property sub-oracles (state + hooks). See oracle.rs for the dispatch.

use std::collections::{BTreeMap, BTreeSet, HashMap, HashSet};

use ckb_network::{bytes::Bytes, PeerIndex};
use ckb_types::{
    packed::{self, Byte32},
    prelude::*,
    U256,
};

use crate::client::Proto;
use crate::oracle::{normalize, Checker};
use crate::sim::{Kind, Sim, Tag};

// =====================================================================================
// C12: the stored tip only moves to heavier proven headers with truthful difficulty
// =====================================================================================

pub fn c12_check(ck: &mut Checker, sim: &mut Sim, after_boot: bool) {
    let c = match sim.client.as_ref() {
        Some(c) => c,
        None => return,
    };
    let (td, tip) = c.storage.get_last_state();
    let tip_hash = tip.calc_header_hash();
    let tip_bytes = tip_hash.as_slice().to_vec();
    let last_n = c.storage.get_last_n_headers();
    let prev_td = ck.prev_td.clone();
    let prev_tip = ck.prev_tip.clone();
    let changed = prev_tip != tip_bytes;
    let mut findings: Vec<(&str, String)> = Vec::new();
    if after_boot && !prev_tip.is_empty() {
        // a restart must reproduce tip and difficulty
        if changed || prev_td.as_ref() != Some(&td) {
            findings.push((
                "restart_changes_tip",
                format!("tip/total difficulty differ after reopening the store"),
            ));
        }
    }
    if changed || prev_td.as_ref() != Some(&td) {
        if let Some(p) = prev_td.as_ref() {
            if !prev_tip.is_empty() && !(td > *p) {
                findings.push((
                    "tip_moved_without_more_difficulty",
                    format!(
                        "stored total difficulty went {:#x} -> {:#x} while the tip changed",
                        p, td
                    ),
                ));
            }
        }
        match sim.world.by_hash.get(&tip_hash) {
            None => {
                // Not a block of the honest chain tree. With the dummy PoW engine anybody can
                // "mine": a header whose parent is known and whose total difficulty is the
                // parent's plus its own is a legitimate block of a deviating peer's own chain.
                let parent_td = sim
                    .world
                    .by_hash
                    .get(&tip.raw().parent_hash())
                    .map(|id| sim.world.blocks[*id].td.clone())
                    .or_else(|| ck.attacker_blocks.get(tip.raw().parent_hash().as_slice()).cloned());
                let own = ckb_types::utilities::compact_to_difficulty(tip.raw().compact_target().unpack());
                let consistent = parent_td
                    .as_ref()
                    .and_then(|p| p.checked_add(&own))
                    .map(|e| e == td)
                    .unwrap_or(false);
                if consistent {
                    ck.attacker_blocks.insert(tip_hash.as_slice().to_vec(), td.clone());
                } else {
                    findings.push((
                        "tip_not_a_real_block",
                        format!(
                            "stored tip #{} {:#x} is no block of any honest chain and its stored total difficulty {:#x} is not its parent's plus its own",
                            Unpack::<u64>::unpack(&tip.raw().number()),
                            tip_hash,
                            td
                        ),
                    ));
                }
            }
            Some(id) => {
                let true_td = sim.world.blocks[*id].td.clone();
                let number = sim.world.blocks[*id].number();
                // genesis is stored with total difficulty zero by init_genesis_block
                if !(number == 0 && td == U256::zero()) && true_td != td {
                    findings.push((
                        "stored_total_difficulty_untruthful",
                        format!(
                            "tip #{}: stored total difficulty {:#x}, cumulative chain difficulty {:#x}",
                            number, td, true_td
                        ),
                    ));
                }
                // last-N are ancestors of the tip
                let mut anc: HashMap<u64, Byte32> = HashMap::new();
                let mut cur = Some(*id);
                let lowest = last_n.iter().map(|(n, _)| *n).min().unwrap_or(number);
                while let Some(i) = cur {
                    let b = &sim.world.blocks[i];
                    if b.number() < lowest {
                        break;
                    }
                    anc.insert(b.number(), b.hash());
                    cur = b.parent;
                }
                // ... namely the ones right below it: consecutive numbers ending at tip - 1
                if let (Some((first, _)), Some((last, _))) = (last_n.first(), last_n.last()) {
                    let consecutive = last_n.windows(2).all(|w| w[0].0 + 1 == w[1].0);
                    if !consecutive || *first > *last {
                        // young chains: the merge of an old, short window with the new headers
                        // leaves duplicated numbers in the list (all of them true ancestors)
                        sim.stat("probe.c12.last_n_window_with_overlapping_numbers");
                    }
                    if *last + 1 != number {
                        findings.push((
                            "last_n_window_does_not_end_right_below_the_tip",
                            format!(
                                "tip #{}, remembered header numbers {:?}",
                                number,
                                last_n.iter().map(|(n, _)| *n).collect::<Vec<_>>()
                            ),
                        ));
                    }
                }
                for (n, h) in &last_n {
                    if *n >= number || anc.get(n) != Some(h) {
                        findings.push((
                            "last_n_not_ancestors_of_tip",
                            format!("remembered header #{} {:#x} is not an ancestor of tip #{}", n, h, number),
                        ));
                        break;
                    }
                }
            }
        }
    }
    for (clause, detail) in findings {
        if clause == "last_n_not_ancestors_of_tip" && !ck.c04.last_unnoticed_peer_only {
            if let Some((c4, fork)) = ck.c04.unnoticed.last().cloned() {
                // consequence of a fork the client could not notice: old-branch headers are
                // merged into the remembered window
                sim.violate(
                    "C04",
                    &c4,
                    format!("fork point #{} went unnoticed and headers of the abandoned branch stay in the remembered last-N window: {}", fork, detail),
                );
                sim.taint = Some(format!("C04/{}", c4));
                continue;
            }
        }
        // a made-up child of the proven tip, adopted by the child fast path
        let forged_child = ck
            .last_cur
            .as_ref()
            .map(|(_, t, _)| {
                !t.honest && t.kind == Kind::SendLastState && (t.note.contains("forged child") || t.note.contains("crafted child"))
            })
            .unwrap_or(false);
        if forged_child && (clause == "tip_not_a_real_block" || clause == "stored_total_difficulty_untruthful") {
            sim.violate(
                "C12",
                "forged_child_of_the_proven_tip_adopted_by_the_fast_path",
                format!("{} ; {}", detail, ck.last_cur.as_ref().map(|(_, t, _)| t.note.clone()).unwrap_or_default()),
            );
            sim.taint = Some("C12/forged_child_of_the_proven_tip_adopted_by_the_fast_path".into());
            continue;
        }
        sim.violate("C12", clause, detail);
    }
    if changed && !prev_tip.is_empty() {
        sim.stat("probe.c12.tip_changes");
    }
    ck.prev_td = Some(td);
    ck.prev_tip = tip_bytes;
}

// =====================================================================================
// C15: every proof request the client builds is well-formed and samples enough
// =====================================================================================

fn u256_f64(v: &U256) -> f64 {
    let b = v.to_le_bytes();
    let mut r = 0.0f64;
    for i in (0..32).rev() {
        r = r * 256.0 + b[i] as f64;
    }
    r
}

pub fn c15_expected_samples(blocks_count: u64, last_n: u64) -> u64 {
    if blocks_count <= last_n {
        return 0;
    }
    // FlyClient: c = 0.5, lambda = 50 ; k = log_c(l/n) ; m >= lambda / log_{1/2}(1 - 1/k)
    let k = ((last_n as f64) / (blocks_count as f64)).ln() / (0.5f64).ln();
    let denom = (1.0 - 1.0 / k).ln() / (0.5f64).ln();
    let m = (50.0 / denom).ceil();
    let m = if m.is_nan() || m < 0.0 { 0u64 } else if m > 1e18 { u64::MAX } else { m as u64 };
    if m <= last_n {
        1
    } else if m > blocks_count {
        blocks_count - last_n
    } else {
        m - last_n
    }
}

pub fn c15_check(ck: &mut Checker, sim: &mut Sim, session: usize, req: &packed::GetLastStateProof) {
    sim.stat("probe.c15.requests_checked");
    let c = match sim.client.as_ref() {
        Some(c) => c,
        None => return,
    };
    let last_n_cfg = sim.plan.knobs.last_n;
    let st = match c.peers.get_state(&PeerIndex::new(session)) {
        Some(s) => s,
        None => return,
    };
    let last = match st.get_last_state() {
        Some(l) => l.clone(),
        None => {
            sim.violate("C15", "request_without_last_state", format!("s{}", session));
            return;
        }
    };
    // the request under construction is for the header in the prove request (tau recheck /
    // long fork recheck use the proven header of the answer), otherwise the last state
    let target = st
        .get_prove_request()
        .map(|r| r.get_last_header().clone())
        .unwrap_or_else(|| last.as_ref().clone());
    let last_number = target.header().number();
    let last_td = target.total_difficulty();
    let mut bad: Vec<(String, String)> = Vec::new();
    if req.last_hash() != target.header().hash() {
        bad.push((
            "last_hash_not_the_announced_header".into(),
            format!("request names {:#x}", req.last_hash()),
        ));
    }
    let start_number: u64 = req.start_number().unpack();
    let last_n_req: u64 = req.last_n_blocks().unpack();
    if last_n_req != last_n_cfg {
        bad.push(("last_n_differs_from_config".into(), format!("{} vs {}", last_n_req, last_n_cfg)));
    }
    if start_number >= last_number {
        bad.push((
            "start_not_below_last".into(),
            format!("start {} last {}", start_number, last_number),
        ));
    }
    let boundary: U256 = req.difficulty_boundary().unpack();
    let diffs: Vec<U256> = req.difficulties().into_iter().map(|d| d.unpack()).collect();
    if boundary > last_td {
        bad.push((
            "boundary_above_last_difficulty".into(),
            format!("{:#x} > {:#x}", boundary, last_td),
        ));
    }
    if diffs.windows(2).any(|w| w[0] >= w[1]) {
        bad.push(("samples_not_strictly_increasing".into(), String::new()));
    }
    if diffs.last().map(|d| *d >= boundary).unwrap_or(false) {
        bad.push(("sample_not_below_boundary".into(), String::new()));
    }
    let start_hash = req.start_hash();
    if !ck.allowed_starts.contains(&start_hash.as_slice().to_vec()) {
        bad.push((
            "start_hash_not_a_trusted_header".into(),
            format!("start #{} {:#x}", start_number, start_hash),
        ));
    }
    // ground truth for the start point, when it is a real block
    if let Some(id) = sim.world.by_hash.get(&start_hash) {
        let b = &sim.world.blocks[*id];
        if b.number() != start_number {
            bad.push((
                "start_number_does_not_match_start_hash".into(),
                format!("{} vs {}", start_number, b.number()),
            ));
        }
        let start_td = if b.number() == 0 { U256::zero() } else { b.td.clone() };
        if start_td > last_td {
            bad.push(("start_difficulty_above_last".into(), String::new()));
        }
        if let Some(first) = diffs.first() {
            if *first == start_td {
                // (the recorded finding: a sample clamped to boundary - 1 on a tiny range)
                bad.push((
                    "sample_not_above_start_difficulty".into(),
                    format!("{:#x} <= {:#x}", first, start_td),
                ));
            } else if *first < start_td {
                bad.push((
                    "sample_below_start_difficulty".into(),
                    format!("{:#x} < {:#x}", first, start_td),
                ));
            }
        }
        if boundary < start_td && b.number() != 0 {
            // (a rebased start lies below the original start whose difficulty is the boundary)
            bad.push(("boundary_below_start_difficulty".into(), String::new()));
        }
        // a sampled request: the boundary is start + (last - start) * (1 - last_n / gap), with
        // the difficulty of the very block the request names as its start (the ratio is
        // quantised to 10^-9)
        if b.number() != 0 && last_number > start_number && last_number - start_number > last_n_cfg && last_td >= start_td {
            let gap = (last_number - start_number) as f64;
            let range = u256_f64(&(&last_td - &start_td));
            let expected = u256_f64(&start_td) + range * (1.0 - (last_n_cfg as f64) / gap);
            let got = u256_f64(&boundary);
            if (got - expected).abs() > range * 1e-8 + 2.0 + expected.abs() * 1e-12 {
                bad.push((
                    "boundary_not_derived_from_the_start_block".into(),
                    format!("boundary {:#x}, start difficulty {:#x}, last difficulty {:#x}", boundary, start_td, last_td),
                ));
            }
        }
    }
    if start_number < last_number {
        let gap = last_number - start_number;
        if gap <= last_n_cfg {
            if !diffs.is_empty() {
                bad.push((
                    "samples_requested_for_small_gap".into(),
                    format!("gap {} last_n {} samples {}", gap, last_n_cfg, diffs.len()),
                ));
            }
            sim.stat("probe.c15.small_gap_request");
        } else {
            sim.stat("probe.c15.sampled_request");
            let expected = c15_expected_samples(gap, last_n_cfg);
            let n = diffs.len() as u64;
            if n == 0 {
                bad.push((
                    "no_samples_for_large_gap".into(),
                    format!("gap {} last_n {}", gap, last_n_cfg),
                ));
            } else if n > expected {
                bad.push((
                    "more_samples_than_the_bound".into(),
                    format!("{} > {}", n, expected),
                ));
            } else if n < expected {
                // collisions of the random draws are legal; bound their probability
                let delta = (last_n_cfg as f64) / (gap as f64);
                let dens = 1.0 / (delta * (1.0 / delta).ln() * (1.0 - delta));
                // the sampling ratio is quantised to 10^9 steps (RATIO_SCALE_FACTOR)
                // (the draws land on integer difficulties between the start block's total
                // difficulty and the boundary: a chain of low difficulty leaves few slots)
                let start_td_known = sim
                    .world
                    .by_hash
                    .get(&start_hash)
                    .map(|id| {
                        let b = &sim.world.blocks[*id];
                        if b.number() == 0 {
                            U256::zero()
                        } else {
                            b.td.clone()
                        }
                    })
                    .unwrap_or_else(U256::zero);
                let width = if boundary > start_td_known { &boundary - &start_td_known } else { U256::one() };
                let range = u256_f64(&width).max(1.0).min(1e9);
                // expected number of colliding pairs (with a safety factor of 16); the chance of
                // losing d samples to collisions is bounded by the Poisson tail lam^d / d!
                let lam = (expected as f64) * (expected as f64) / 2.0 * dens / range * 16.0;
                let d = expected - n;
                let mut p = 1.0f64;
                for i in 1..=d.min(64) {
                    p = p * lam / (i as f64);
                }
                if p < 1e-9 {
                    bad.push((
                        if (gap as f64) / (last_n_cfg as f64) > 1e7 {
                            "fewer_samples_than_the_flyclient_bound_for_an_astronomic_gap".into()
                        } else {
                            "fewer_samples_than_the_flyclient_bound".into()
                        },
                        format!("{} < {} for gap {} last_n {}", n, expected, gap, last_n_cfg),
                    ));
                } else {
                    sim.stat("probe.c15.collision_tolerated");
                }
            }
        }
    }
    for (clause, detail) in bad {
        sim.violate(
            "C15",
            &clause,
            format!(
                "GetLastStateProof to s{}: start #{}, last #{}, {} samples; {}",
                session,
                start_number,
                last_number,
                diffs.len(),
                detail
            ),
        );
    }
}

// =====================================================================================
// Stubs filled in by later stages
// =====================================================================================

#[derive(Default)]
pub struct C07State {
    pub prev_max: Option<u32>,
    pub finals: Vec<Vec<u8>>,
    /// what each session delivered: session -> index -> value
    pub delivered: HashMap<usize, BTreeMap<u32, Vec<u8>>>,
    /// stored tip number when the faults stopped
    pub tip_at_quiet: Option<u64>,
    pub honest_vector_peer_banned: bool,
}
#[derive(Default)]
pub struct C11State {
    /// per session: (state name, had prove state)
    pub names: HashMap<usize, (String, bool)>,
    /// sessions the model expects the running refresh tick to disconnect
    pub expect_timeout: HashSet<usize>,
    pub no_timeout_expected: HashSet<usize>,
    pub disconnected_in_tick: HashSet<usize>,
    pub in_refresh_tick: bool,
    /// per session: header / tx hashes in flight when the session closed
    pub inflight: HashMap<usize, (Vec<Vec<u8>>, Vec<Vec<u8>>)>,
    /// the delivery under way is the honest answer to the proof request that is outstanding
    /// for its session: (session, request bytes as the client stores them)
    pub answers_outstanding: Option<(usize, Vec<u8>)>,
    /// sessions a GetLastStateProof was sent to while the current delivery was handled
    pub proof_requested_in_event: HashSet<usize>,
    /// per session: wall-clock time of the latest GetLastState / GetLastStateProof the client sent
    /// (the model's own `when_sent`, not read from the client's state)
    pub last_request_at: HashMap<usize, u64>,
}

fn c11_edge_ok(from: &str, to: &str) -> bool {
    // the documented edges (plus the prove-state copy OnlyHasLastState -> Ready)
    const E: &[(&str, &str)] = &[
        ("Initialized", "RequestFirstLastState"),
        ("RequestFirstLastState", "OnlyHasLastState"),
        ("OnlyHasLastState", "RequestFirstLastStateProof"),
        ("OnlyHasLastState", "Ready"),
        ("RequestFirstLastStateProof", "Ready"),
        ("Ready", "RequestNewLastState"),
        ("RequestNewLastState", "Ready"),
        ("Ready", "RequestNewLastStateProof"),
        ("RequestNewLastStateProof", "Ready"),
    ];
    if from == to {
        return true;
    }
    // one handler call may take up to three documented steps
    let mut frontier = vec![from.to_string()];
    for _ in 0..3 {
        let mut next = Vec::new();
        for f in &frontier {
            for (a, b) in E {
                if a == f {
                    if *b == to {
                        return true;
                    }
                    next.push(b.to_string());
                }
            }
        }
        frontier = next;
    }
    false
}

fn c11_state_name(st: &crate::protocols::light_client::PeerState) -> String {
    let s = format!("{}", st);
    s.trim_start_matches("PeerState::")
        .split(' ')
        .next()
        .unwrap_or("")
        .to_string()
}

fn c11_parse(field: &str, text: &str) -> Option<u64> {
    let i = text.find(field)?;
    let rest = &text[i + field.len()..];
    let digits: String = rest.chars().skip_while(|c| !c.is_ascii_digit()).take_while(|c| c.is_ascii_digit()).collect();
    digits.parse().ok()
}

/// Run after every event: edges, prove state never dropped by an update.
pub fn c11_scan(ck: &mut Checker, sim: &mut Sim) {
    let c = match sim.client.as_ref() {
        Some(c) => c,
        None => return,
    };
    let mut findings: Vec<(&str, String)> = Vec::new();
    let mut transitions = 0;
    let sessions: Vec<usize> = sim.sessions.keys().cloned().collect();
    for s in sessions {
        if let Some(st) = c.peers.get_state(&PeerIndex::new(s)) {
            let name = c11_state_name(&st);
            let has_prove = st.get_prove_state().is_some();
            if let Some((prev, prev_prove)) = ck.c11.names.get(&s).cloned() {
                if prev != name {
                    transitions += 1;
                    if !c11_edge_ok(&prev, &name) {
                        findings.push((
                            "undocumented_transition",
                            format!("s{}: {} -> {} during {}", s, prev, name, sim.last_event_kind),
                        ));
                    }
                }
                if prev_prove && !has_prove {
                    findings.push((
                        "prove_state_discarded",
                        format!("s{}: {} -> {} lost its prove state during {}", s, prev, name, sim.last_event_kind),
                    ));
                }
            }
            ck.c11.names.insert(s, (name, has_prove));
        }
    }
    if transitions > 0 {
        sim.stat_add("probe.c11.transitions", transitions);
    }
    for (clause, detail) in findings {
        sim.violate("C11", clause, detail);
    }
}
#[derive(Clone, Debug, PartialEq)]
pub enum FetchSt {
    Added(u64),
    Fetching(u64),
    Fetched,
    NotFound,
}
#[derive(Default)]
pub struct C16State {
    /// (is_tx, hash) -> (last status, client incarnation, client tip number when first asked)
    pub st: BTreeMap<(bool, Vec<u8>), (FetchSt, u64, u64)>,
    /// tx hash -> block (hash, number) named by an honest transactions proof the client asked
    /// for and consumed; cleared whenever the client's stored tip leaves its previous chain
    pub proven_at: BTreeMap<Vec<u8>, (Vec<u8>, u64)>,
    /// world id of the stored tip as last seen
    pub tip_id: Option<usize>,
}
pub use crate::txgen::C18State;
#[derive(Default)]
pub struct C06State {
    /// block number of every registered script as last seen (reset by the user's set_scripts)
    pub progress: HashMap<Vec<u8>, u64>,
}

/// A script's recorded block number may only be raised over blocks whose filters were checked:
/// never beyond the filtered height.
pub fn c06_progress(ck: &mut Checker, sim: &mut Sim) {
    if !ck.flag("byz_filters") {
        return;
    }
    let c = match sim.client.as_ref() {
        Some(c) => c,
        None => return,
    };
    let mf = c.storage.get_min_filtered_block_number();
    let mut findings: Vec<String> = Vec::new();
    let mut now: HashMap<Vec<u8>, u64> = HashMap::new();
    for s in c.storage.get_filter_scripts() {
        let mut key = s.script.as_slice().to_vec();
        key.push(matches!(s.script_type, crate::storage::ScriptType::Lock) as u8);
        if let Some(prev) = ck.c06.progress.get(&key) {
            if s.block_number > *prev && s.block_number > mf {
                findings.push(format!(
                    "a script's block number was raised from {} to {} although filters are checked only up to block {} (during {})",
                    prev, s.block_number, mf, sim.last_event_kind
                ));
            }
        }
        now.insert(key, s.block_number);
    }
    ck.c06.progress = now;
    for d in findings {
        sim.violate("C06", "script_progress_raised_beyond_the_checked_filters", d);
    }
}
#[derive(Default)]
pub struct C02State {}
#[derive(Default)]
pub struct C01State {
    pub crafted_sessions: HashSet<usize>,
}
#[derive(Default)]
pub struct C04State {
    pub from_genesis_outstanding: HashSet<usize>,
    pub aborted: bool,
    pub from_genesis_requests: u64,
    /// branch switches the client could not notice (no reorg section / child fast path): (clause, fork point)
    pub unnoticed: Vec<(String, u64)>,
    /// the latest entry of `unnoticed` is the per-peer variant only: the stored tip had already
    /// followed the new branch (with a rollback) when this peer's proven header moved over
    pub last_unnoticed_peer_only: bool,
    /// per session: when the from-genesis recheck was requested from it, was the peer's own
    /// proven tip the stored tip (so that its reorg section was computed relative to what the
    /// client remembers)? With it: (stored tip hash, stored tip number) at that moment.
    pub recheck_from_own_tip: HashMap<usize, (bool, Vec<u8>, u64)>,
}

pub fn c04_on_long_fork_abort(ck: &mut Checker, sim: &mut Sim, ctx: &str) {
    // The documented abort. It is legitimate iff (a) the message is an honest proof answering
    // the from-genesis recheck request and (b) the proven header shares none of the headers
    // the client remembered (stored tip, last-N).
    let (session, tag, data) = match ck.cur.clone() {
        Some(x) => x,
        None => {
            sim.violate("C10", "panic:long_fork_abort_outside_a_message", ctx.to_string());
            return;
        }
    };
    let recheck = ck
        .snap
        .prove
        .get(&session)
        .and_then(|(_, req)| req.clone())
        .and_then(|r| packed::GetLastStateProof::from_slice(&r).ok())
        .map(|r| Unpack::<u64>::unpack(&r.start_number()) == 0)
        .unwrap_or(false);
    let new_id = packed::LightClientMessageReader::from_compatible_slice(&data)
        .ok()
        .and_then(|m| match m.to_enum() {
            packed::LightClientMessageUnionReader::SendLastStateProof(r) => {
                Some(r.last_header().header().to_entity().calc_header_hash())
            }
            _ => None,
        })
        .and_then(|h| sim.world.by_hash.get(&h).cloned());
    let mut shared = None;
    if let Some(new_id) = new_id {
        let mut remembered: Vec<(u64, Vec<u8>)> = ck.snap.last_n.clone();
        remembered.push((ck.snap.tip_number, ck.snap.tip_hash.clone()));
        for (n, h) in remembered {
            if n == 0 {
                continue;
            }
            if let Some(id) = Byte32::from_slice(&h).ok().and_then(|h| sim.world.by_hash.get(&h).cloned()) {
                if sim.world.is_ancestor_or_self(id, new_id) {
                    shared = Some(n);
                }
            }
        }
    }
    ck.c04.aborted = true;
    if !tag.honest || new_id.is_none() {
        sim.violate(
            "C10",
            "panic:long_fork_abort_caused_by_a_crafted_message",
            format!("'long fork detected' {}", ctx),
        );
    } else if !recheck {
        sim.violate(
            "C04",
            "long_fork_abort_without_the_from_genesis_recheck",
            format!("'long fork detected' {}", ctx),
        );
    } else if let Some((depth, fork)) = c04_short_fork_of_own_tip(ck, sim, session, new_id) {
        // not the recorded finding (a reorg section computed relative to a peer's stale prove
        // state): this peer's proven tip WAS the stored tip, and the fork is within last-N
        let window: Vec<u64> = ck.snap.last_n.iter().map(|(n, _)| *n).collect();
        let detail = format!(
            "the peer's own proven tip was the stored tip, the new chain forks {} blocks below it (at #{}), last-N is {}, the stored window holds the numbers {:?} ; {}",
            depth, fork, sim.plan.knobs.last_n, window, ctx
        );
        sim.violate("C04", "fork_within_last_n_of_the_proving_peers_own_tip_taken_for_a_long_fork", detail.clone());
        if ck.honest_only {
            sim.violate("C05", "abort_on_a_fork_within_last_n_in_an_honest_world", detail);
        }
    } else if let Some(n) = shared {
        sim.violate(
            "C04",
            "long_fork_abort_although_a_remembered_header_is_shared",
            format!("the proven chain contains the remembered header #{} ; {}", n, ctx),
        );
    } else {
        sim.stat("probe.c04.long_fork_abort");
    }
}
/// (depth, fork number) when the recheck was requested while the answering peer's own proven
/// tip was the stored tip and the proven chain leaves that tip's chain at most last-N blocks
/// below it.
fn c04_short_fork_of_own_tip(ck: &Checker, sim: &Sim, session: usize, new_id: Option<usize>) -> Option<(u64, u64)> {
    let (own, tip_hash, tip_number) = ck.c04.recheck_from_own_tip.get(&session)?.clone();
    if !own {
        return None;
    }
    let new_id = new_id?;
    let old_id = *sim.world.by_hash.get(&Byte32::from_slice(&tip_hash).ok()?)?;
    if sim.world.is_ancestor_or_self(old_id, new_id) {
        return None;
    }
    let fork = sim.world.blocks[sim.world.common_ancestor(old_id, new_id)].number();
    let depth = tip_number.checked_sub(fork)?;
    // (a fork right above the genesis block replaces everything the client remembers: that
    // case stays with the recorded finding's classification)
    if fork >= 1 && depth >= 1 && depth <= sim.plan.knobs.last_n {
        Some((depth, fork))
    } else {
        None
    }
}

pub fn c04_on_client_send(ck: &mut Checker, sim: &mut Sim, _s: usize, p: Proto, d: &Bytes) {
    if p != Proto::LightClient {
        return;
    }
    if let Ok(m) = packed::LightClientMessageReader::from_compatible_slice(d) {
        if let packed::LightClientMessageUnionReader::GetLastStateProof(r) = m.to_enum() {
            let start: u64 = r.start_number().unpack();
            if start == 0 && ck.snap.tip_number > 0 {
                ck.c04.from_genesis_requests += 1;
                sim.stat("probe.c04.from_genesis_recheck_request");
                let own = ck.snap.prove.get(&_s).and_then(|(p, _)| p.clone()) == Some(ck.snap.tip_hash.clone());
                ck.c04
                    .recheck_from_own_tip
                    .insert(_s, (own, ck.snap.tip_hash.clone(), ck.snap.tip_number));
            }
        }
    }
}

/// Root-cause detector: the stored tip moved to another branch but the part of the index
/// (and of the filter progress) above the fork point was not rolled back.
pub fn c04_after(ck: &mut Checker, sim: &mut Sim, session: usize, _p: Proto, _d: &Bytes, tag: &Tag) {
    let c = match sim.client.as_ref() {
        Some(c) => c,
        None => return,
    };
    // honest filters of a peer that still follows the abandoned branch advance the progress
    if tag.kind == Kind::BlockFilters && tag.honest {
        let mf_now = c.storage.get_min_filtered_block_number();
        if mf_now > ck.snap.min_filtered {
            if let Some(&p) = sim.sessions.get(&session) {
                let view = sim.peers[p].view;
                let (_, tip) = c.storage.get_last_state();
                if let Some(path) = crate::refidx::canonical_path(&sim.world, &tip.calc_header_hash()) {
                    let mut bad = None;
                    for n in (ck.snap.min_filtered + 1)..=mf_now {
                        let theirs = sim.world.block_opt(view.branch, n).map(|b| b.hash());
                        let ours = path.get(n as usize).map(|id| sim.world.blocks[*id].hash());
                        if theirs.is_some() && ours.is_some() && theirs != ours {
                            bad = Some(n);
                            break;
                        }
                    }
                    if let Some(n) = bad {
                        sim.violate(
                            "C04",
                            "filters_of_abandoned_branch_accepted_from_peer_that_has_not_switched",
                            format!(
                                "the stored tip is on another branch than s{} (still proven on the old one); its BlockFilters advanced the filtered height {} -> {} over block #{} of the abandoned branch",
                                session, ck.snap.min_filtered, mf_now, n
                            ),
                        );
                        sim.taint = Some("C04/filters_of_abandoned_branch_accepted_from_peer_that_has_not_switched".into());
                        return;
                    }
                }
            }
        }
        return;
    }
    let mut peer_switch = false;
    // per-peer variant: the peer's proven header moved to another branch through a proof
    // without reorg section (the start was rebased onto a stored header of the new branch)
    if tag.kind == Kind::SendLastStateProof
        && tag.layout.as_ref().map(|l| l.reorg.is_empty() && !l.tip_changed).unwrap_or(false)
    {
        let prev = ck.snap.prove.get(&session).and_then(|(p, _)| p.clone());
        let now = c
            .peers
            .get_state(&PeerIndex::new(session))
            .and_then(|st| st.get_prove_state().map(|p| p.get_last_header().header().hash()));
        if let (Some(prev), Some(now)) = (prev, now) {
            let a = Byte32::from_slice(&prev).ok().and_then(|h| sim.world.by_hash.get(&h).cloned());
            let b = sim.world.by_hash.get(&now).cloned();
            if let (Some(a), Some(b)) = (a, b) {
                if a != b && !sim.world.is_ancestor_or_self(a, b) {
                    let fork = sim.world.blocks[sim.world.common_ancestor(a, b)].number();
                    ck.c04.unnoticed.push((
                        "fork_unnoticed_when_start_was_rebased_below_the_fork".to_string(),
                        fork,
                    ));
                    ck.c04.last_unnoticed_peer_only = true;
                    peer_switch = true;
                }
            }
        }
    }
    let (_, tip) = c.storage.get_last_state();
    let tip_hash = tip.calc_header_hash();
    if tip_hash.as_slice() == ck.snap.tip_hash.as_slice() || ck.snap.tip_hash.is_empty() {
        if peer_switch {
            sim.stat("probe.c04.peer_proof_switched_branch_without_reorg_section");
        }
        return;
    }
    let old_id = match Byte32::from_slice(&ck.snap.tip_hash).ok().and_then(|h| sim.world.by_hash.get(&h).cloned()) {
        Some(i) => i,
        None => return,
    };
    let new_id = match sim.world.by_hash.get(&tip_hash) {
        Some(i) => *i,
        None => return,
    };
    if sim.world.is_ancestor_or_self(old_id, new_id) {
        return;
    }
    let fork = sim.world.blocks[sim.world.common_ancestor(old_id, new_id)].number();
    let scripts_now = c
        .storage
        .get_filter_scripts()
        .iter()
        .map(|x| x.block_number)
        .max()
        .unwrap_or(0);
    let mf_now = c.storage.get_min_filtered_block_number();
    let need = ck.snap.max_script_progress > fork || ck.snap.min_filtered > fork;
    let rolled = scripts_now <= fork + 1 && mf_now <= fork;
    let records = [c.storage.get_earliest_matched_blocks(), c.storage.get_latest_matched_blocks()];
    let tip_number_now: u64 = tip.raw().number().unpack();
    sim.stat("probe.c04.branch_switch");
    if need {
        sim.stat("probe.c04.branch_switch_over_indexed_blocks");
    }
    // a matched-blocks record that survived the switch must not name abandoned blocks
    {
        let mut stale = None;
        for rec in records {
            if let Some((start, count, blocks)) = rec {
                for (h, proved) in blocks {
                    if let Some(id) = sim.world.by_hash.get(&h) {
                        if !sim.world.is_ancestor_or_self(*id, new_id) {
                            stale = Some((start, count, sim.world.blocks[*id].number(), proved));
                        }
                    }
                }
            }
        }
        if let Some((start, count, n, proved)) = stale {
            let detail = format!(
                "after the switch to the branch forking at #{} the stored matched-blocks record (start {}, {} blocks) still names block #{} of the abandoned branch (proved flag {}): it is either never provable (sync waits forever) or, when flagged proved, downloaded and indexed",
                fork, start, count, n, proved
            );
            sim.violate("C04", "matched_record_spanning_fork_keeps_abandoned_hashes", detail);
            sim.taint = Some("C04/matched_record_spanning_fork_keeps_abandoned_hashes".to_string());
            return;
        }
    }
    let clause = match tag.kind {
        Kind::SendLastStateProof
            if tag.layout.as_ref().map(|l| l.reorg.is_empty()).unwrap_or(false) =>
        {
            "fork_unnoticed_when_start_was_rebased_below_the_fork"
        }
        Kind::SendLastState => "fork_unnoticed_by_child_fast_path",
        _ => "fork_switch_without_rollback",
    };
    if clause != "fork_switch_without_rollback" {
        ck.c04.unnoticed.push((clause.to_string(), fork));
        ck.c04.last_unnoticed_peer_only = false;
    }
    // the numbers can look rolled back (a set_scripts rewind, a script registered at fork + 1)
    // although nothing was: look for history entries of abandoned blocks
    let stale_entries = c04_abandoned_entries_indexed(sim, fork, new_id);
    if (need && !rolled) || stale_entries {
        let detail = format!(
            "tip moved from #{} to #{} on another branch (fork point #{}); scripts were filtered up to {} / min_filtered {} and stay at {} / {}: blocks above the fork point of the abandoned branch remain indexed",
            ck.snap.tip_number,
            tip_number_now,
            fork,
            ck.snap.max_script_progress,
            ck.snap.min_filtered,
            scripts_now,
            mf_now
        );
        sim.violate("C04", clause, detail);
        sim.taint = Some(format!("C04/{}", clause));
    }
}

/// Is a transaction-history entry of a block above `fork` stored whose block is not an ancestor
/// of the new tip `new_id`?
fn c04_abandoned_entries_indexed(sim: &Sim, fork: u64, new_id: usize) -> bool {
    use rocksdb::ops::Iterate;
    use rocksdb::{Direction, IteratorMode};
    let c = match sim.client.as_ref() {
        Some(c) => c,
        None => return false,
    };
    let registered: Vec<(u8, Vec<u8>)> = c
        .storage
        .get_filter_scripts()
        .iter()
        .map(|ss| {
            (
                if matches!(ss.script_type, crate::storage::ScriptType::Lock) { 96u8 } else { 128u8 },
                crate::storage::extract_raw_data(&ss.script),
            )
        })
        .collect();
    for prefix in [96u8, 128u8] {
        let start = [prefix];
        let mode = IteratorMode::From(&start[..], Direction::Forward);
        for (key, value) in c.storage.db.iterator(mode) {
            if key[0] != prefix {
                break;
            }
            if key.len() < 18 || value.len() != 32 {
                continue;
            }
            // the property speaks about registered scripts: what a de-registered script left
            // behind is not looked at (nor touched by a rollback)
            if !registered.iter().any(|(p, raw)| *p == prefix && key.len() == 1 + raw.len() + 17 && key[1..].starts_with(raw)) {
                continue;
            }
            let n = u64::from_be_bytes(key[key.len() - 17..key.len() - 9].try_into().unwrap());
            if n <= fork {
                continue;
            }
            let h = match Byte32::from_slice(&value) {
                Ok(h) => h,
                Err(_) => continue,
            };
            let on_new_chain = sim
                .world
                .tx_locs
                .get(&h)
                .map(|locs| {
                    locs.iter().any(|(id, _)| {
                        sim.world.blocks[*id].number() == n && sim.world.is_ancestor_or_self(*id, new_id)
                    })
                })
                .unwrap_or(false);
            if !on_new_chain {
                return true;
            }
        }
    }
    false
}

pub fn c07_on_boot(_ck: &mut Checker, _sim: &mut Sim) {}

/// Records what each session delivered (the world knows what it sent).
pub fn c07_before(ck: &mut Checker, sim: &mut Sim, session: usize, _p: Proto, data: &Bytes, t: &Tag) {
    if t.kind != Kind::BlockFilterCheckPoints {
        return;
    }
    if let Ok(m) = packed::BlockFilterMessageReader::from_slice(data) {
        if let packed::BlockFilterMessageUnionReader::BlockFilterCheckPoints(r) = m.to_enum() {
            let interval = sim.plan.knobs.check_point_interval.max(1);
            let start: u64 = r.start_number().unpack();
            if start % interval != 0 {
                return;
            }
            let base = (start / interval) as u32;
            let e = ck.c07.delivered.entry(session).or_default();
            for (i, h) in r.block_filter_hashes().iter().enumerate() {
                // the first answer for an index counts (later contradicting ones are rejected)
                e.entry(base + i as u32).or_insert_with(|| h.as_slice().to_vec());
            }
            if !t.honest {
                sim.stat("probe.c07.deviating_vector_delivered");
            }
        }
    }
}

pub fn c07_check(ck: &mut Checker, sim: &mut Sim) {
    let c = match sim.client.as_ref() {
        Some(c) => c,
        None => return,
    };
    if ck.c07.tip_at_quiet.is_none() && sim.now >= sim.plan.quiet_from {
        let (_, tip) = c.storage.get_last_state();
        ck.c07.tip_at_quiet = Some(tip.raw().number().unpack());
    }
    let max = c.storage.get_max_check_point_index();
    let values: Vec<Vec<u8>> = c
        .storage
        .get_check_points(0, max as usize + 1)
        .into_iter()
        .map(|h| h.as_slice().to_vec())
        .collect();
    let mut findings: Vec<(&str, String)> = Vec::new();
    let mut finalized_now = false;
    let prev = ck.c07.prev_max;
    if let Some(pm) = prev {
        if max < pm {
            findings.push(("final_index_decreased", format!("{} -> {}", pm, max)));
        }
        for i in 0..=(pm.min(max) as usize) {
            if ck.c07.finals.get(i) != values.get(i) {
                findings.push((
                    "final_check_point_rewritten",
                    format!("check point {} changed after it was final", i),
                ));
                break;
            }
        }
        if max > pm {
            finalized_now = true;
            let quorum = ((sim.plan.knobs.max_outbound + 1) / 2) as usize;
            // currently proven sessions and what they delivered
            let proven: Vec<usize> = sim
                .sessions
                .keys()
                .cloned()
                .filter(|s| {
                    c.peers
                        .get_state(&PeerIndex::new(*s))
                        .map(|st| st.get_prove_state().is_some())
                        .unwrap_or(false)
                })
                .collect();
            let interval = sim.plan.knobs.check_point_interval;
            let (_, tip) = c.storage.get_last_state();
            let path = crate::refidx::canonical_path(&sim.world, &tip.calc_header_hash());
            let deviating_connected = sim
                .sessions
                .values()
                .filter(|p| sim.plan.peers[**p].lie_salt != 0)
                .count();
            for i in (pm + 1)..=max {
                let agree = proven
                    .iter()
                    .filter(|s| {
                        ck.c07
                            .delivered
                            .get(s)
                            .map(|d| {
                                ((pm + 1)..=i).all(|j| d.get(&j) == values.get(j as usize))
                            })
                            .unwrap_or(false)
                    })
                    .count();
                if agree < quorum {
                    findings.push((
                        "finalized_without_quorum_agreement",
                        format!(
                            "check point {} became final (previous final {}), but only {} currently proven peers delivered exactly the finalized values for ({}, {}]; quorum is {}; proven sessions {:?}, delivered indices {:?}",
                            i, pm, agree, pm, i, quorum, proven,
                            ck.c07.delivered.iter().map(|(s, d)| (*s, d.keys().cloned().min(), d.keys().cloned().max(), d.get(&i) == values.get(i as usize))).collect::<Vec<_>>()
                        ),
                    ));
                    break;
                }
                if deviating_connected < quorum {
                    if let Some(path) = path.as_ref() {
                        let n = (i as u64) * interval;
                        if let Some(id) = path.get(n as usize) {
                            if sim.world.blocks[*id].filter_hash.as_slice() != values[i as usize].as_slice() {
                                findings.push((
                                    "wrong_value_finalized_without_a_deviating_quorum",
                                    format!(
                                        "check point {} (block #{}) is final with a value that is not the block's filter hash; {} deviating peers connected, quorum {}",
                                        i, n, deviating_connected, quorum
                                    ),
                                ));
                                break;
                            }
                        }
                    }
                }
            }
        }
    }
    ck.c07.prev_max = Some(max);
    ck.c07.finals = values;
    if finalized_now {
        sim.stat("probe.c07.finalized");
    }
    for (clause, detail) in findings {
        sim.violate("C07", clause, detail);
    }
}
fn c07_deviating_in_plan(sim: &Sim) -> usize {
    sim.plan.peers.iter().filter(|p| p.lie_salt != 0 || !p.mutations.is_empty()).count()
}

/// With fewer deviating peers than the quorum nothing wrong can become final, so a peer that
/// reports the true check points never contradicts a final value and must not be banned.
pub fn c07_on_ban(ck: &mut Checker, sim: &mut Sim, s: usize, r: &str) {
    if !ck.flag("checkpoints") {
        return;
    }
    let quorum = ((sim.plan.knobs.max_outbound + 1) / 2) as usize;
    if c07_deviating_in_plan(sim) >= quorum {
        return;
    }
    if let Some(p) = sim.sessions.get(&s).cloned() {
        let pp = &sim.plan.peers[p];
        if pp.lie_salt == 0 && pp.mutations.is_empty() {
            ck.c07.honest_vector_peer_banned = true;
            sim.violate(
                "C07",
                "peer_reporting_the_true_check_points_banned",
                format!("s{} (peer {}) banned: {}; {} deviating peers in the plan, quorum {}", s, p, r, c07_deviating_in_plan(sim), quorum),
            );
        }
    }
}

/// "... nor block agreement among the rest": with a quorum of proven peers that report the true
/// check points connected since the faults stopped, the final index must have reached the
/// check point below the tip the client had proven by then.
pub fn c07_at_end(ck: &mut Checker, sim: &mut Sim) {
    if !ck.flag("checkpoints") || ck.c07.honest_vector_peer_banned {
        return;
    }
    let c = match sim.client.as_ref() {
        Some(c) => c,
        None => return,
    };
    let quorum = ((sim.plan.knobs.max_outbound + 1) / 2) as usize;
    if c07_deviating_in_plan(sim) >= quorum {
        return;
    }
    let honest_proven = sim
        .sessions
        .iter()
        .filter(|(s, p)| {
            let pp = &sim.plan.peers[**p];
            pp.lie_salt == 0
                && pp.mutations.is_empty()
                && c.peers
                    .get_state(&PeerIndex::new(**s))
                    .map(|st| st.get_prove_state().is_some())
                    .unwrap_or(false)
        })
        .count();
    let tip_at_quiet = match ck.c07.tip_at_quiet {
        Some(t) => t,
        None => return,
    };
    if honest_proven < quorum {
        return;
    }
    let interval = sim.plan.knobs.check_point_interval.max(1);
    let expected = (tip_at_quiet / interval).saturating_sub(1);
    let max = c.storage.get_max_check_point_index() as u64;
    if max < expected {
        sim.violate(
            "C07",
            "agreement_among_a_quorum_of_true_reporters_blocked",
            format!(
                "final index {} at the end ({} ms after the faults stopped), but the client had proven block #{} (check point {}) by then and {} proven peers reporting the true check points are connected (quorum {}, {} deviating peers in the plan)",
                max,
                sim.now.saturating_sub(sim.plan.quiet_from),
                tip_at_quiet,
                tip_at_quiet / interval,
                honest_proven,
                quorum,
                c07_deviating_in_plan(sim)
            ),
        );
    } else {
        sim.stat("probe.c07.final_index_reached_the_proven_tip");
    }
}

pub fn c11_on_boot(ck: &mut Checker, _sim: &mut Sim) {
    ck.c11.names.clear();
    ck.c11.inflight.clear();
}
pub fn c11_on_client_send(ck: &mut Checker, sim: &mut Sim, s: usize, p: Proto, d: &Bytes) {
    if p == Proto::LightClient {
        if let Ok(m) = packed::LightClientMessageReader::from_compatible_slice(d) {
            match m.to_enum() {
                packed::LightClientMessageUnionReader::GetLastStateProof(_) => {
                    ck.c11.proof_requested_in_event.insert(s);
                    ck.c11.last_request_at.insert(s, crate::sim::wall_now(sim.now));
                }
                packed::LightClientMessageUnionReader::GetLastState(_) => {
                    ck.c11.last_request_at.insert(s, crate::sim::wall_now(sim.now));
                }
                _ => {}
            }
        }
    }
}
pub fn c11_on_ban(_ck: &mut Checker, _sim: &mut Sim, _s: usize, _r: &str) {}
pub fn c11_on_disconnect(ck: &mut Checker, _sim: &mut Sim, s: usize, _m: &str) {
    if ck.c11.in_refresh_tick {
        ck.c11.disconnected_in_tick.insert(s);
    }
}
pub fn c11_on_connect(ck: &mut Checker, _sim: &mut Sim, s: usize, _p: usize) {
    ck.c11.names.insert(s, ("Initialized".to_string(), false));
}

/// (v) a closed session leaves no state behind, and its in-flight fetches become eligible again
pub fn c11_on_session_closed(ck: &mut Checker, sim: &mut Sim, s: usize, _p: usize) {
    ck.c11.names.remove(&s);
    let c = match sim.client.as_ref() {
        Some(c) => c,
        None => return,
    };
    let mut findings: Vec<(&str, String)> = Vec::new();
    if c.peers.get_state(&PeerIndex::new(s)).is_some() {
        findings.push(("state_left_behind_after_disconnect", format!("s{} still has a peer state", s)));
    }
    if let Some((headers, txs)) = ck.c11.inflight.remove(&s) {
        let to_fetch_h: HashSet<Vec<u8>> = c.peers.get_headers_to_fetch().iter().map(|h| h.as_slice().to_vec()).collect();
        let to_fetch_t: HashSet<Vec<u8>> = c.peers.get_txs_to_fetch().iter().map(|h| h.as_slice().to_vec()).collect();
        for h in headers {
            let b = Byte32::from_slice(&h).unwrap();
            if let Some((_, _, missing)) = c.peers.get_header_fetch_info(&b) {
                if !missing && !to_fetch_h.contains(&h) {
                    findings.push((
                        "inflight_fetch_lost_with_the_session",
                        format!("header {:#x} was requested from s{} and is not eligible for another peer", b, s),
                    ));
                }
            }
        }
        for h in txs {
            let b = Byte32::from_slice(&h).unwrap();
            if let Some((_, _, missing)) = c.peers.get_tx_fetch_info(&b) {
                if !missing && !to_fetch_t.contains(&h) {
                    findings.push((
                        "inflight_fetch_lost_with_the_session",
                        format!("transaction {:#x} was requested from s{} and is not eligible for another peer", b, s),
                    ));
                }
            }
        }
    }
    for (clause, detail) in findings {
        sim.violate("C11", clause, detail);
    }
}

/// remember what each session has in flight (evaluated when it closes)
pub fn c11_before(ck: &mut Checker, sim: &mut Sim, s: usize, _p: Proto, _d: &Bytes, t: &Tag) {
    c11_note_inflight(ck, sim);
    ck.c11.answers_outstanding = None;
    ck.c11.proof_requested_in_event.clear();
    // a peer serving an attacker-mined branch answers in good form, but its chain is invalid:
    // its answer is rightly rejected and the request stays until the ban closes the session
    let forged_chain = sim
        .sessions
        .get(&s)
        .map(|p| sim.world.branches[sim.peers[*p].view.branch].forged)
        .unwrap_or(false);
    if t.kind == Kind::SendLastStateProof && t.honest && !forged_chain && !t.layout.as_ref().map(|l| l.tip_changed).unwrap_or(true) {
        if let (Some(c), Some(req)) = (sim.client.as_ref(), t.request.as_ref()) {
            let outstanding = c
                .peers
                .get_state(&PeerIndex::new(s))
                .and_then(|st| st.get_prove_request().map(|r| r.get_content().as_slice().to_vec()));
            // the server answered exactly the request that is (still) outstanding
            let answered = packed::LightClientMessageReader::from_compatible_slice(req).ok().and_then(|m| match m.to_enum() {
                packed::LightClientMessageUnionReader::GetLastStateProof(r) => Some(r.as_slice().to_vec()),
                _ => None,
            });
            if let (Some(o), Some(a)) = (outstanding, answered) {
                if o == a {
                    ck.c11.answers_outstanding = Some((s, o));
                }
            }
        }
    }
}
fn c11_note_inflight(ck: &mut Checker, sim: &mut Sim) {
    let c = match sim.client.as_ref() {
        Some(c) => c,
        None => return,
    };
    for s in sim.sessions.keys() {
        if let Some(peer) = c.peers.get_peer(&PeerIndex::new(*s)) {
            let hs: Vec<Vec<u8>> = peer
                .get_blocks_proof_request()
                .map(|r| r.block_hashes().iter().map(|h| h.as_bytes().to_vec()).collect())
                .unwrap_or_default();
            let ts: Vec<Vec<u8>> = peer
                .get_txs_proof_request()
                .map(|r| r.tx_hashes().iter().map(|h| h.as_bytes().to_vec()).collect())
                .unwrap_or_default();
            ck.c11.inflight.insert(*s, (hs, ts));
        }
    }
}
/// The honest answer to the outstanding proof request is consumed: afterwards that very
/// request is not outstanding any more (a new one - the tau re-check - may be).
pub fn c11_after(ck: &mut Checker, sim: &mut Sim, s: usize, _p: Proto, _d: &Bytes, _t: &Tag) {
    if let Some((session, req)) = ck.c11.answers_outstanding.take() {
        if session != s {
            return;
        }
        let c = match sim.client.as_ref() {
            Some(c) => c,
            None => return,
        };
        let still = c
            .peers
            .get_state(&PeerIndex::new(s))
            .and_then(|st| st.get_prove_request().map(|r| r.get_content().as_slice().to_vec()));
        let tip_hash = c.storage.get_last_state().1.calc_header_hash();
        let stored_td = c.storage.get_last_state().0;
        sim.stat("probe.c11.solicited_proof_delivered");
        // a re-request (tau re-check) may carry exactly the same content: it was sent just now
        let re_requested = ck.c11.proof_requested_in_event.contains(&s);
        if still.as_ref() == Some(&req) && sim.sessions.contains_key(&s) && !re_requested {
            // known variant: the sampled answer failed the (probabilistic) tau check, and a new
            // request cannot be built because another peer has proven this very tip meanwhile
            let asked_tip = packed::GetLastStateProofReader::from_slice(&req).ok().map(|r| r.last_hash().to_entity());
            let not_ahead = asked_tip
                .as_ref()
                .and_then(|h| sim.world.by_hash.get(h))
                .map(|id| sim.world.blocks[*id].td <= stored_td)
                .unwrap_or(false);
            let clause = if asked_tip.as_ref() == Some(&tip_hash) || not_ahead {
                "request_left_outstanding_when_the_tip_was_proven_by_another_peer_meanwhile"
            } else {
                "solicited_proof_left_the_request_outstanding"
            };
            sim.violate(
                "C11",
                clause,
                format!("s{}: the honest answer to the outstanding GetLastStateProof was delivered and the same request is still outstanding", s),
            );
        }
    }
}

/// (iii) the refresh tick disconnects exactly the peers whose request or last state is older
/// than the message timeout
pub fn c11_before_timer(ck: &mut Checker, sim: &mut Sim, proto: Proto, token: u64) {
    c11_note_inflight(ck, sim);
    ck.c11.in_refresh_tick = proto == Proto::LightClient && token == 0;
    ck.c11.expect_timeout.clear();
    ck.c11.no_timeout_expected.clear();
    ck.c11.disconnected_in_tick.clear();
    if !ck.c11.in_refresh_tick {
        return;
    }
    let c = match sim.client.as_ref() {
        Some(c) => c,
        None => return,
    };
    let now = crate::sim::wall_now(sim.now);
    for s in sim.sessions.keys() {
        if let (Some(st), Some(peer)) = (
            c.peers.get_state(&PeerIndex::new(*s)),
            c.peers.get_peer(&PeerIndex::new(*s)),
        ) {
            let text = format!("{:#}", st);
            let when_sent = c11_parse("when_sent:", &text);
            let update_ts = st.get_last_state().map(|l| l.update_ts());
            // a request is outstanding (the client's state says so): it times out 60 s after the
            // latest request was SENT - the model's own record, not the client's `when_sent`
            let by_request = match (when_sent, ck.c11.last_request_at.get(s)) {
                (Some(_), Some(sent)) => now > *sent + 60_000,
                (Some(w), None) => now > w + 60_000,
                (None, _) => false,
            };
            let by_state = update_ts.map(|u| now > u + 60_000).unwrap_or(false);
            let other_requests = peer.get_blocks_proof_request().is_some()
                || peer.get_blocks_request().is_some()
                || peer.get_txs_proof_request().is_some();
            if by_request || by_state {
                ck.c11.expect_timeout.insert(*s);
            } else if !other_requests {
                ck.c11.no_timeout_expected.insert(*s);
            }
        }
    }
}
pub fn c11_after_timer(ck: &mut Checker, sim: &mut Sim, _proto: Proto, _token: u64) {
    if !ck.c11.in_refresh_tick {
        return;
    }
    ck.c11.in_refresh_tick = false;
    let mut findings: Vec<(&str, String)> = Vec::new();
    for s in ck.c11.expect_timeout.iter() {
        if !ck.c11.disconnected_in_tick.contains(s) {
            findings.push((
                "timed_out_peer_not_disconnected",
                format!("s{}: request or last state older than 60 s at the refresh tick, but no disconnect", s),
            ));
        }
    }
    for s in ck.c11.no_timeout_expected.iter() {
        if ck.c11.disconnected_in_tick.contains(s) {
            findings.push((
                "peer_disconnected_without_a_timeout",
                format!("s{}: disconnected by the refresh tick although nothing was older than 60 s", s),
            ));
        }
    }
    if !ck.c11.disconnected_in_tick.is_empty() {
        sim.stat("probe.c11.timeout_disconnects");
    }
    for (clause, detail) in findings {
        // in a world of protocol-following peers this is an honest peer rejected (C05)
        if clause == "peer_disconnected_without_a_timeout" && ck.honest_only {
            sim.violate("C05", "honest_peer_disconnected_without_a_timeout", detail.clone());
        }
        sim.violate("C11", clause, detail);
    }
}

pub fn c01_before(_ck: &mut Checker, _sim: &mut Sim, _s: usize, _p: Proto, _d: &Bytes, _t: &Tag) {}

fn proofs_decode_equal(a: &Bytes, b: &Bytes) -> bool {
    let pa = packed::LightClientMessageReader::from_compatible_slice(a).ok().map(|m| m.to_enum());
    let pb = packed::LightClientMessageReader::from_compatible_slice(b).ok().map(|m| m.to_enum());
    match (pa, pb) {
        (
            Some(packed::LightClientMessageUnionReader::SendLastStateProof(x)),
            Some(packed::LightClientMessageUnionReader::SendLastStateProof(y)),
        ) => {
            x.last_header().as_slice() == y.last_header().as_slice()
                && x.headers().as_slice() == y.headers().as_slice()
                && x.proof().as_slice() == y.proof().as_slice()
        }
        _ => false,
    }
}

/// Where a delivered proof differs from the canonical one. Returns (the only differences are
/// parent chain roots of genesis headers, description).
fn proof_difference(a: &Bytes, b: &Bytes) -> (bool, String) {
    let pa = packed::LightClientMessageReader::from_compatible_slice(a).ok().map(|m| m.to_enum());
    let pb = packed::LightClientMessageReader::from_compatible_slice(b).ok().map(|m| m.to_enum());
    if let (
        Some(packed::LightClientMessageUnionReader::SendLastStateProof(x)),
        Some(packed::LightClientMessageUnionReader::SendLastStateProof(y)),
    ) = (pa, pb)
    {
        let mut what = Vec::new();
        let mut only_genesis_root = true;
        if x.last_header().as_slice() != y.last_header().as_slice() {
            what.push("last header".to_string());
            only_genesis_root = false;
        }
        if x.proof().as_slice() != y.proof().as_slice() {
            what.push("proof items".to_string());
            only_genesis_root = false;
        }
        if x.headers().len() != y.headers().len() {
            what.push(format!("header count {} vs {}", x.headers().len(), y.headers().len()));
            only_genesis_root = false;
        } else {
            for i in 0..x.headers().len() {
                let (hx, hy) = (x.headers().get(i).unwrap(), y.headers().get(i).unwrap());
                if hx.as_slice() == hy.as_slice() {
                    continue;
                }
                let n: u64 = hx.header().raw().number().unpack();
                let rest_equal = hx.header().as_slice() == hy.header().as_slice()
                    && hx.uncles_hash().as_slice() == hy.uncles_hash().as_slice()
                    && hx.extension().as_slice() == hy.extension().as_slice();
                if rest_equal {
                    what.push(format!("parent chain root of header {} (#{})", i, n));
                    if n != 0 {
                        only_genesis_root = false;
                    }
                } else {
                    // name the fields that differ
                    let mut fields: Vec<&str> = Vec::new();
                    let (rx, ry) = (hx.header().raw(), hy.header().raw());
                    for (name, a, b) in [
                        ("version", rx.version().as_slice(), ry.version().as_slice()),
                        ("compact_target", rx.compact_target().as_slice(), ry.compact_target().as_slice()),
                        ("timestamp", rx.timestamp().as_slice(), ry.timestamp().as_slice()),
                        ("number", rx.number().as_slice(), ry.number().as_slice()),
                        ("epoch", rx.epoch().as_slice(), ry.epoch().as_slice()),
                        ("parent_hash", rx.parent_hash().as_slice(), ry.parent_hash().as_slice()),
                        ("transactions_root", rx.transactions_root().as_slice(), ry.transactions_root().as_slice()),
                        ("proposals_hash", rx.proposals_hash().as_slice(), ry.proposals_hash().as_slice()),
                        ("extra_hash", rx.extra_hash().as_slice(), ry.extra_hash().as_slice()),
                        ("dao", rx.dao().as_slice(), ry.dao().as_slice()),
                        ("nonce", hx.header().nonce().as_slice(), hy.header().nonce().as_slice()),
                        ("uncles_hash", hx.uncles_hash().as_slice(), hy.uncles_hash().as_slice()),
                        ("extension", hx.extension().as_slice(), hy.extension().as_slice()),
                        ("parent_chain_root", hx.parent_chain_root().as_slice(), hy.parent_chain_root().as_slice()),
                    ] {
                        if a != b {
                            fields.push(name);
                        }
                    }
                    what.push(format!("header {} (#{}): {}", i, n, fields.join("+")));
                    only_genesis_root = false;
                }
            }
        }
        if what.is_empty() {
            only_genesis_root = false;
            what.push("encoding only".into());
        }
        return (only_genesis_root, what.join(", "));
    }
    (false, "not comparable".into())
}

/// C01: the trusted chain state may change on a SendLastStateProof only if the delivered
/// message decodes to the canonical honest answer to the outstanding request.
pub fn c01_after(ck: &mut Checker, sim: &mut Sim, session: usize, proto: Proto, data: &Bytes, tag: &Tag) {
    if proto != Proto::LightClient {
        return;
    }
    // (b) announcements: a SendLastState may move the prove state only to the direct child of
    // the header proven for that peer (or to a header already proven for another peer)
    if let Ok(m) = packed::LightClientMessageReader::from_compatible_slice(data) {
        if let packed::LightClientMessageUnionReader::SendLastState(r) = m.to_enum() {
            let after = Checker::take_snap(sim);
            let before = &ck.snap;
            if before.prove_digest.get(&session) != after.prove_digest.get(&session) {
                let prev = before.prove.get(&session).and_then(|(p, _)| p.clone());
                let now = after.prove.get(&session).and_then(|(p, _)| p.clone());
                let announced_parent = r.last_header().header().raw().parent_hash().as_slice().to_vec();
                let announced_hash = r.last_header().header().to_entity().calc_header_hash().as_slice().to_vec();
                let copied = now
                    .as_ref()
                    .map(|n| {
                        before
                            .prove
                            .iter()
                            .any(|(s2, (p2, _))| *s2 != session && p2.as_ref() == Some(n))
                    })
                    .unwrap_or(false);
                let child = match (&prev, &now) {
                    (Some(p), Some(n)) => *n == announced_hash && announced_parent == *p,
                    _ => false,
                };
                sim.stat("probe.c01.prove_state_moved_by_announcement");
                if !child && !copied {
                    sim.violate(
                        "C01",
                        "announcement_changed_prove_state_without_proof",
                        format!(
                            "a SendLastState from s{} ({}) changed its prove state although the announced header is not the child of the proven one and no proof was verified",
                            session,
                            if tag.honest { "honest" } else { "deviating" }
                        ),
                    );
                }
            }
            return;
        }
    }
    let is_proof = packed::LightClientMessageReader::from_compatible_slice(data)
        .ok()
        .map(|m| matches!(m.to_enum(), packed::LightClientMessageUnionReader::SendLastStateProof(_)))
        .unwrap_or(false);
    if !is_proof && tag.kind != Kind::SendLastStateProof {
        return;
    }
    let equivalent = tag.honest
        || tag
            .canonical
            .as_ref()
            .map(|c| c == data || proofs_decode_equal(c, data))
            .unwrap_or(false);
    if !equivalent {
        sim.stat("probe.c01.mutated_proof_delivered");
    }
    let after = Checker::take_snap(sim);
    let before = &ck.snap;
    let mut changed: Vec<String> = Vec::new();
    if before.tip_hash != after.tip_hash || before.td != after.td {
        changed.push(format!("stored tip #{} -> #{}", before.tip_number, after.tip_number));
    }
    if before.last_n != after.last_n {
        changed.push("remembered last-N headers".into());
    }
    for (s, d) in after.prove_digest.iter() {
        if before.prove_digest.get(s) != Some(d) {
            changed.push(format!("prove state of s{}", s));
        }
    }
    // A SendLastStateProof that names another last header than the outstanding request and
    // carries no MMR proof is the server's "my tip has changed": the client treats its last
    // header as an announcement (its headers are not looked at). As for a SendLastState, the
    // only trusted state that may move is this peer's prove state, and only to the announced
    // header when that very header has already been proven for another peer.
    let announcement_only = {
        let named = packed::LightClientMessageReader::from_compatible_slice(data).ok().and_then(|m| match m.to_enum() {
            packed::LightClientMessageUnionReader::SendLastStateProof(r) => {
                Some((r.proof().is_empty(), r.last_header().header().to_entity().calc_header_hash().as_slice().to_vec()))
            }
            _ => None,
        });
        match named {
            Some((true, hash)) => {
                let now = after.prove.get(&session).and_then(|(p, _)| p.clone());
                let only_own_prove_state = changed.len() == 1 && changed[0] == format!("prove state of s{}", session);
                let copied = now.as_ref() == Some(&hash)
                    && before.prove.iter().any(|(s2, (p2, _))| *s2 != session && p2.as_ref() == Some(&hash));
                only_own_prove_state && copied
            }
            _ => false,
        }
    };
    if announcement_only && !equivalent {
        sim.stat("probe.c01.prove_state_copied_after_a_tip_changed_reply");
    } else if !changed.is_empty() {
        sim.stat("probe.c01.proof_changed_trusted_state");
        if !equivalent {
            sim.stat("probe.c01.ALTERED_PROOF_ACCEPTED");
            // which header was touched? (the genesis header carries no chain root commitment)
            let mut clause = "altered_proof_changed_trusted_state";
            let mut diff_note = String::new();
            if let Some(c) = tag.canonical.as_ref() {
                let (only_genesis_root, what) = proof_difference(c, data);
                diff_note = what;
                if only_genesis_root {
                    clause = "altered_parent_chain_root_of_the_genesis_header_accepted";
                }
            }
            // the whole reorg section left out, everything else as the honest answer has it
            if let (Some(c), Some(l)) = (tag.canonical.as_ref(), tag.layout.as_ref()) {
                let hs = |b: &Bytes| -> Option<Vec<Vec<u8>>> {
                    match packed::LightClientMessageReader::from_compatible_slice(b).ok()?.to_enum() {
                        packed::LightClientMessageUnionReader::SendLastStateProof(r) => {
                            Some(r.headers().iter().map(|h| h.as_slice().to_vec()).collect())
                        }
                        _ => None,
                    }
                };
                if let (Some(honest), Some(got)) = (hs(c), hs(data)) {
                    let nr = l.reorg.len();
                    if nr > 0 && honest.len() == got.len() + nr && honest[nr..] == got[..] {
                        clause = "reorg_section_omitted_by_a_peer_on_another_branch_accepted";
                    }
                    // the honest answer preceded by true ancestors of the start block, shaped
                    // like a reorg section nobody needed
                    if nr == 0 && got.len() > honest.len() && got[got.len() - honest.len()..] == honest[..] {
                        let view = sim.peers.iter().find(|p| p.session == Some(session)).map(|p| p.view);
                        let extra_real = view
                            .map(|v| {
                                got[..got.len() - honest.len()].iter().all(|h| {
                                    packed::VerifiableHeaderReader::from_slice(h)
                                        .ok()
                                        .map(|r| {
                                            let n: u64 = r.header().raw().number().unpack();
                                            sim.world
                                                .block_opt(v.branch, n)
                                                .map(|b| b.verifiable().as_slice() == &h[..])
                                                .unwrap_or(false)
                                        })
                                        .unwrap_or(false)
                                })
                            })
                            .unwrap_or(false);
                        if extra_real {
                            clause = "superfluous_reorg_section_of_true_ancestors_accepted";
                        }
                    }
                }
            }
            if let Some(rest) = tag.note.strip_prefix("alter parent chain root of header ") {
                if let (Ok(i), Some(c)) = (rest.trim().parse::<usize>(), tag.canonical.as_ref()) {
                    let n = packed::LightClientMessageReader::from_compatible_slice(c)
                        .ok()
                        .and_then(|m| match m.to_enum() {
                            packed::LightClientMessageUnionReader::SendLastStateProof(r) => r
                                .headers()
                                .get(i)
                                .map(|h| Unpack::<u64>::unpack(&h.header().raw().number())),
                            _ => None,
                        });
                    if n == Some(0) {
                        clause = "altered_parent_chain_root_of_the_genesis_header_accepted";
                    }
                }
            }
            sim.violate(
                "C01",
                clause,
                format!(
                    "s{} delivered a SendLastStateProof that is not the honest answer ({}; differs in: {}); changed: {:?}",
                    session, tag.note, diff_note, changed
                ),
            );
        }
    }
}
pub fn c02_before(_ck: &mut Checker, _sim: &mut Sim, _s: usize, _p: Proto, _d: &Bytes, _t: &Tag) {}
pub fn c02_after(ck: &mut Checker, sim: &mut Sim, _s: usize, _p: Proto, _d: &Bytes, t: &Tag) {
    if !ck.flag("byz_blocks") {
        return;
    }
    if matches!(t.kind, Kind::SendBlock | Kind::SendBlocksProof | Kind::SendTransactionsProof | Kind::Injected) {
        if !t.honest {
            sim.stat("probe.c02.mutated_delivered");
            c02_scan(ck, sim, &format!("after {} ({})", t.kind.name(), t.note));
        }
    }
}

/// Everything stored must exist in the ground-truth chain tree: transactions at the recorded
/// block, headers, and the transactions referenced by cell / history keys.
pub fn c02_scan(ck: &mut Checker, sim: &mut Sim, when: &str) {
    if !ck.flag("byz_blocks") {
        return;
    }
    use rocksdb::ops::Iterate;
    use rocksdb::{Direction, IteratorMode};
    let c = match sim.client.as_ref() {
        Some(c) => c,
        None => return,
    };
    let mut findings: Vec<(&str, String)> = Vec::new();
    let mode = IteratorMode::From(&[0u8][..], Direction::Forward);
    for (key, value) in c.storage.db.iterator(mode) {
        match key[0] {
            0 => {
                // TxHash -> (number, index, tx)
                if key.len() != 33 || value.len() < 12 {
                    continue;
                }
                let number = u64::from_be_bytes(value[0..8].try_into().unwrap());
                let index = u32::from_be_bytes(value[8..12].try_into().unwrap());
                let h = Byte32::from_slice(&key[1..]).unwrap();
                let ok = packed::Transaction::from_slice(&value[12..])
                    .ok()
                    .map(|tx| tx.calc_tx_hash() == h)
                    .unwrap_or(false)
                    && sim
                        .world
                        .tx_locs
                        .get(&h)
                        .map(|locs| {
                            locs.iter().any(|(id, i)| {
                                sim.world.blocks[*id].number() == number && (*i == index || index == u32::MAX)
                            })
                        })
                        .unwrap_or(false);
                // the stored bytes are the chain's transaction, witnesses included (the
                // transaction hash does not cover the witnesses)
                if ok {
                    if let Some(real) = sim.world.txs.get(&h) {
                        if real.data().as_slice() != &value[12..] {
                            findings.push((
                                "stored_transaction_differs_from_the_committed_one",
                                format!("transaction {:#x} is stored with bytes (witnesses) that differ from the transaction its block commits to", h),
                            ));
                        }
                    }
                }
                // ... and, these scenarios having no reorg, on the proven (main) chain
                let on_main = sim
                    .world
                    .tx_locs
                    .get(&h)
                    .map(|locs| {
                        locs.iter().any(|(id, _)| {
                            sim.world.blocks[*id].number() == number
                                && sim.world.branches[0].ids.get(number as usize) == Some(id)
                        })
                    })
                    .unwrap_or(false);
                if ok && !on_main {
                    findings.push((
                        "stored_transaction_of_a_block_no_proven_header_commits_to",
                        format!("transaction {:#x} stored at block {} index {} belongs to a side-branch block nobody proved", h, number, index),
                    ));
                }
                if !ok {
                    findings.push((
                        "stored_transaction_not_in_any_real_block",
                        format!(
                            "transaction {:#x} stored at block {} index {}; real locations {:?}",
                            h,
                            number,
                            index,
                            sim.world.tx_locs.get(&h).map(|l| l
                                .iter()
                                .map(|(id, i)| (sim.world.blocks[*id].number(), *i))
                                .collect::<Vec<_>>())
                        ),
                    ));
                }
            }
            32 | 64 | 96 | 128 => {
                if value.len() == 32 {
                    let h = Byte32::from_slice(&value).unwrap();
                    if !sim.world.txs.contains_key(&h) {
                        findings.push((
                            "index_entry_of_unknown_transaction",
                            format!("key prefix {} refers to transaction {:#x}", key[0], h),
                        ));
                    }
                }
            }
            160 => {
                if key.len() == 33 {
                    let h = Byte32::from_slice(&key[1..]).unwrap();
                    match sim.world.by_hash.get(&h) {
                        None => findings.push(("stored_header_not_a_real_block", format!("header {:#x}", h))),
                        Some(id) => {
                            // these scenarios have no reorg: every header a proven last state
                            // commits to lies on the main branch
                            let n = sim.world.blocks[*id].number();
                            if sim.world.branches[0].ids.get(n as usize) != Some(id) {
                                findings.push((
                                    "stored_header_of_a_block_no_proven_header_commits_to",
                                    format!("header {:#x} (#{}) belongs to a side branch nobody proved", h, n),
                                ));
                            }
                        }
                    }
                }
            }
            _ => {}
        }
    }
    findings.dedup_by(|a, b| a.0 == b.0);
    for (clause, detail) in findings {
        sim.violate("C02", clause, format!("[{}] {}", when, detail));
    }
}
pub fn c06_before(_ck: &mut Checker, _sim: &mut Sim, _s: usize, _p: Proto, _d: &Bytes, _t: &Tag) {}

/// C06 step invariant: the filtered height only moves over authentic filters, and a matched
/// record names the proven-chain blocks of the heights it covers.
pub fn c06_after(ck: &mut Checker, sim: &mut Sim, session: usize, _p: Proto, data: &Bytes, t: &Tag) {
    if t.kind != Kind::BlockFilters {
        return;
    }
    if !t.honest {
        sim.stat("probe.c06.mutated_filters_delivered");
    }
    let c = match sim.client.as_ref() {
        Some(c) => c,
        None => return,
    };
    let before = ck.snap.min_filtered;
    let after = c.storage.get_min_filtered_block_number();
    if after <= before {
        return;
    }
    let msg = match packed::BlockFilterMessageReader::from_slice(data).ok().map(|m| m.to_enum()) {
        Some(packed::BlockFilterMessageUnionReader::BlockFilters(r)) => r.to_entity(),
        _ => return,
    };
    let (_, tip) = c.storage.get_last_state();
    let path = match crate::refidx::canonical_path(&sim.world, &tip.calc_header_hash()) {
        Some(p) => p,
        None => return,
    };
    let start: u64 = msg.start_number().unpack();
    let mut findings: Vec<(&str, String)> = Vec::new();
    for n in (before + 1)..=after {
        let idx = n.checked_sub(start).map(|x| x as usize);
        let delivered = idx.and_then(|i| msg.filters().get(i));
        let truth = path.get(n as usize).map(|id| sim.world.blocks[*id].filter.clone());
        match (delivered, truth) {
            (Some(d), Some(tr)) => {
                if d.as_slice() != tr.as_slice() {
                    let interval = sim.plan.knobs.check_point_interval.max(1);
                    let finalized = c.storage.get_last_check_point().0 as u64 * interval;
                    findings.push((
                        // below the finalized check point no quorum is consulted: the filter was
                        // checked against hashes that a single peer supplied
                        if n <= finalized && t.note.contains("consistent with the made-up hashes") {
                            // the recorded cache-poisoning attack (unsolicited hashes + filters)
                            "tampered_filters_accepted_after_unsolicited_hashes_poisoned_the_cache"
                        } else if n <= finalized {
                            "tampered_filter_accepted_below_the_finalized_check_point"
                        } else {
                            "filtered_height_advanced_over_a_tampered_filter"
                        },
                        format!("s{}: height {} -> {}; the filter delivered for block #{} is not the block's filter ({})", session, before, after, n, t.note),
                    ));
                    break;
                }
            }
            (None, _) => {
                findings.push((
                    "filtered_height_advanced_beyond_the_delivered_filters",
                    format!("s{}: height {} -> {} but the message (start {}) has no filter for #{} ({})", session, before, after, start, n, t.note),
                ));
                break;
            }
            _ => {}
        }
    }
    // a record written for this batch
    if let Some((rs, count, blocks)) = c.storage.get_latest_matched_blocks() {
        if rs == before + 1 {
            let mut allowed = std::collections::HashSet::new();
            for n in rs..rs.saturating_add(count) {
                if let Some(id) = path.get(n as usize) {
                    allowed.insert(sim.world.blocks[*id].hash());
                }
            }
            // positions whose delivered block hash is not the proven-chain block of that height
            let mut substituted = std::collections::HashSet::new();
            for (i, h) in msg.block_hashes().into_iter().enumerate() {
                let n = start + i as u64;
                if n > after {
                    break;
                }
                if let Some(id) = path.get(n as usize) {
                    if sim.world.blocks[*id].hash() != h {
                        substituted.insert(h);
                    }
                }
            }
            for (h, _) in blocks {
                if !allowed.contains(&h) || substituted.contains(&h) {
                    findings.push((
                        "matched_record_names_a_block_outside_the_filtered_range",
                        format!("s{}: record (start {}, {} blocks) names {:#x}, which is not the proven-chain block of any of these heights ({})", session, rs, count, h, t.note),
                    ));
                    break;
                }
            }
        }
    }
    for (clause, detail) in findings {
        sim.violate("C06", clause, detail);
        if clause == "matched_record_names_a_block_outside_the_filtered_range"
            || clause == "tampered_filter_accepted_below_the_finalized_check_point"
            || clause == "tampered_filters_accepted_after_unsolicited_hashes_poisoned_the_cache"
        {
            sim.taint = Some(format!("C06/{}", clause));
        }
    }
}
/// Forget the proven locations when the client's stored tip moved off its previous chain.
pub fn c16_note_tip(ck: &mut Checker, sim: &Sim) {
    let c = match sim.client.as_ref() {
        Some(c) => c,
        None => return,
    };
    let tip = c.storage.get_last_state().1.calc_header_hash();
    if let Some(id) = sim.world.by_hash.get(&tip).cloned() {
        if let Some(prev) = ck.c16.tip_id {
            if !sim.world.is_ancestor_or_self(prev, id) {
                ck.c16.proven_at.clear();
            }
        }
        ck.c16.tip_id = Some(id);
    }
}

/// The block a consumed, honest transactions proof named for `h` - if that block is still on
/// the chain of the client's stored tip.
pub fn c16_proven_block(ck: &mut Checker, sim: &Sim, h: &Byte32) -> Option<(String, u64)> {
    c16_note_tip(ck, sim);
    let (bh, n) = ck.c16.proven_at.get(h.as_slice())?.clone();
    let b = Byte32::from_slice(&bh).ok()?;
    let id = *sim.world.by_hash.get(&b)?;
    let tip = ck.c16.tip_id?;
    if !sim.world.is_ancestor_or_self(id, tip) {
        return None;
    }
    Some((format!("{:#x}", b), n))
}

pub fn c16_after_deliver(ck: &mut Checker, sim: &mut Sim, s: usize, _p: Proto, d: &Bytes, t: &Tag) {
    c16_note_tip(ck, sim);
    if t.kind != Kind::SendTransactionsProof || !t.honest {
        return;
    }
    let asked: Vec<Vec<u8>> = ck.c11.inflight.get(&s).map(|x| x.1.clone()).unwrap_or_default();
    if asked.is_empty() {
        return;
    }
    let c = match sim.client.as_ref() {
        Some(c) => c,
        None => return,
    };
    let m = match packed::LightClientMessageReader::from_compatible_slice(d) {
        Ok(m) => m,
        Err(_) => return,
    };
    if let packed::LightClientMessageUnionReader::SendTransactionsProof(r) = m.to_enum() {
        for fb in r.filtered_blocks().iter() {
            let header = fb.header().to_entity().into_view();
            // consumed: the header the answer names is stored now
            if ckb_traits::HeaderProvider::get_header(&c.storage, &header.hash()).is_none() {
                continue;
            }
            for tx in fb.transactions().iter() {
                let th = tx.to_entity().calc_tx_hash();
                if asked.iter().any(|a| a.as_slice() == th.as_slice()) {
                    ck.c16
                        .proven_at
                        .insert(th.as_slice().to_vec(), (header.hash().as_slice().to_vec(), header.number()));
                }
            }
        }
    }
}

/// Liveness: with an honest proven peer connected and faults stopped, every fetch is answered.
pub fn c16_at_end(ck: &mut Checker, sim: &mut Sim) {
    if !ck.flag("fetch") || sim.client.is_none() {
        return;
    }
    if !sim.peers.iter().any(|p| p.session.is_some()) {
        return;
    }
    // a banned honest peer (reported under C05) is away for five minutes: no bound applies
    if sim.violations.iter().any(|v| v.property == "C05") {
        return;
    }
    let keys: Vec<(bool, Vec<u8>)> = ck.c16.st.keys().cloned().collect();
    for (is_tx, h) in keys {
        let hash = Byte32::from_slice(&h).unwrap();
        let method = if is_tx { "fetch_transaction" } else { "fetch_header" };
        let r = crate::user::rpc(sim, method, serde_json::json!([crate::user::h256_json(&hash)]));
        if let Some(Ok(v)) = r {
            let status = v["status"].as_str().unwrap_or("").to_string();
            let (last, linc, asked_at_tip) = ck.c16.st[&(is_tx, h.clone())].clone();
            // an item that is really missing cycles not_found -> added -> fetching -> not_found
            let answered_before = linc == sim.incarnation && matches!(last, FetchSt::NotFound | FetchSt::Fetched);
            // after a restart the in-memory fetch list is gone: this poll was a fresh request
            let fresh = linc != sim.incarnation;
            if (status == "added" || status == "fetching") && !answered_before && !fresh {
                sim.violate(
                    "C16",
                    "fetch_not_completed_after_faults_stopped",
                    format!(
                        "{} {:#x} is still '{}' at the end of the run (asked when the tip was #{}, quiet since {} ms, now {} ms)",
                        method, hash, status, asked_at_tip, sim.plan.quiet_from, sim.now
                    ),
                );
            } else {
                sim.stat("probe.c16.completed");
            }
            // the final answer is judged like any other
            if is_tx {
                crate::oracle3::c16_on_fetch_tx(ck, sim, &hash, Some(Ok(v)));
            } else {
                crate::oracle3::c16_on_fetch_header(ck, sim, &hash, Some(Ok(v)));
            }
        }
    }
}
pub fn c18_on_client_send(_ck: &mut Checker, _sim: &mut Sim, _s: usize, _p: Proto, _d: &Bytes) {}
pub fn c18_at_end(ck: &mut Checker, sim: &mut Sim) {
    let mut st = std::mem::take(&mut ck.c18);
    crate::txgen::check_pool(sim, &mut st);
    ck.c18 = st;
}

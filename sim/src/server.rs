//! Honest full-node model: answers light-client / filter / sync requests from its view of
//! the world, following RFC 44/45 and ckb 0.113's protocol servers (see DESIGN §2.2).

use ckb_merkle_mountain_range::leaf_index_to_pos;
use ckb_types::{
    core::BlockNumber,
    packed::{self, Byte32},
    prelude::*,
    utilities::CBMT,
    U256,
};
use std::collections::{BTreeMap, HashSet};

use crate::chain::World;

/// What a full node currently considers its main chain.
#[derive(Clone, Copy, Debug, PartialEq, Eq)]
pub struct View {
    pub branch: usize,
    pub height: u64,
}

#[derive(Clone, Debug)]
pub struct ServerCfg {
    pub filters_batch: u64,
    pub hashes_batch: u64,
    pub check_points_batch: u64,
    pub check_point_interval: u64,
    /// answer blocks/transactions proofs in the v1 (ckb2023) layout
    pub v1: bool,
}

impl Default for ServerCfg {
    fn default() -> Self {
        ServerCfg {
            filters_batch: 1000,
            hashes_batch: 2000,
            check_points_batch: 2000,
            check_point_interval: 2000,
            v1: true,
        }
    }
}

pub const GET_LAST_STATE_PROOF_LIMIT: usize = 1000;

pub fn lc_msg<T: Into<packed::LightClientMessageUnion>>(content: T) -> packed::LightClientMessage {
    packed::LightClientMessage::new_builder().set(content).build()
}

pub fn send_last_state(world: &World, view: View) -> packed::SendLastState {
    packed::SendLastState::new_builder()
        .last_header(world.block(view.branch, view.height).verifiable())
        .build()
}

/// The number of the first block in [start, end) whose total difficulty is >= `d`.
fn first_block_td_not_less_than(
    world: &World,
    branch: usize,
    start: u64,
    end: u64,
    d: &U256,
) -> Option<(u64, U256)> {
    if start >= end {
        return None;
    }
    if world.td(branch, end - 1) < *d {
        return None;
    }
    let (mut lo, mut hi) = (start, end - 1);
    // smallest n in [lo, hi] with td(n) >= d
    while lo < hi {
        let mid = lo + (hi - lo) / 2;
        if world.td(branch, mid) >= *d {
            hi = mid;
        } else {
            lo = mid + 1;
        }
    }
    Some((lo, world.td(branch, lo)))
}

/// Explains how the honest answer to a `GetLastStateProof` was assembled.
#[derive(Clone, Debug, Default)]
pub struct ProofLayout {
    pub reorg: Vec<u64>,
    pub sampled: Vec<u64>,
    pub last_n: Vec<u64>,
    pub tip_changed: bool,
}

pub enum ProofAnswer {
    /// no reply at all (the real server reports an error status and stays silent)
    Silent(String),
    Reply(packed::SendLastStateProof, ProofLayout),
}

pub fn last_state_proof(
    world: &World,
    view: View,
    req: &packed::GetLastStateProof,
) -> ProofAnswer {
    let last_n_blocks: u64 = req.last_n_blocks().unpack();
    if req.difficulties().len() + (last_n_blocks as usize).saturating_mul(2)
        > GET_LAST_STATE_PROOF_LIMIT
    {
        return ProofAnswer::Silent("too many samples".into());
    }
    let last_hash = req.last_hash();
    let last_number = match world.number_on_branch(view.branch, &last_hash, view.height) {
        Some(n) => n,
        None => {
            // reply_tip_state
            let msg = packed::SendLastStateProof::new_builder()
                .last_header(world.block(view.branch, view.height).verifiable())
                .build();
            return ProofAnswer::Reply(
                msg,
                ProofLayout {
                    tip_changed: true,
                    ..Default::default()
                },
            );
        }
    };
    let start_hash = req.start_hash();
    let start_number: u64 = req.start_number().unpack();
    let boundary: U256 = req.difficulty_boundary().unpack();
    let mut difficulties: Vec<U256> = req
        .difficulties()
        .into_iter()
        .map(|d| Unpack::<U256>::unpack(&d))
        .collect();

    let start_is_ancestor = start_number == 0
        || (start_number <= last_number
            && world.block(view.branch, start_number).hash() == start_hash);
    let reorg: Vec<u64> = if start_is_ancestor {
        Vec::new()
    } else {
        let min_number = start_number - std::cmp::min(start_number - 1, last_n_blocks);
        (min_number..start_number).collect()
    };
    if reorg.last().map(|n| *n >= last_number).unwrap_or(false) {
        // The real server would fail to build the proof (positions beyond the MMR).
        return ProofAnswer::Silent("reorg blocks beyond the last block".into());
    }

    if difficulties.windows(2).any(|d| d[0] >= d[1]) {
        return ProofAnswer::Silent("difficulties not increasing".into());
    }
    if difficulties.last().map(|d| *d >= boundary).unwrap_or(false) {
        return ProofAnswer::Silent("boundary not greater than all difficulties".into());
    }
    if let Some(first) = difficulties.first() {
        if start_number > 0 {
            if start_number - 1 > view.height {
                return ProofAnswer::Silent("start beyond tip".into());
            }
            if world.td(view.branch, start_number - 1) >= *first {
                return ProofAnswer::Silent("start difficulty too high".into());
            }
        }
    }
    if start_number > last_number {
        return ProofAnswer::Silent("start after last".into());
    }

    let (sampled, last_n): (Vec<u64>, Vec<u64>) = if last_number - start_number <= last_n_blocks {
        (Vec::new(), (start_number..last_number).collect())
    } else {
        let mut boundary_number = match first_block_td_not_less_than(
            world,
            view.branch,
            start_number,
            last_number,
            &boundary,
        ) {
            Some((n, _)) => n,
            // The boundary lies inside the last block itself (possible when the last blocks
            // carry more difficulty than the delta region, e.g. tiny last-N). ckb 0.113 refuses
            // such a request; the model is deliberately lenient and serves the last-N blocks,
            // so that no alarm depends on this corner of the server.
            None => last_number - last_n_blocks,
        };
        if last_number - boundary_number < last_n_blocks {
            boundary_number = last_number - last_n_blocks;
        }
        let last_n: Vec<u64> = (boundary_number..last_number).collect();
        if boundary_number > 0 {
            let td_before = world.td(view.branch, boundary_number - 1);
            difficulties.retain(|d| *d <= td_before);
            let mut numbers = Vec::new();
            let mut current = U256::zero();
            let mut from = start_number;
            for d in &difficulties {
                if current >= *d {
                    continue;
                }
                match first_block_td_not_less_than(world, view.branch, from, boundary_number, d) {
                    Some((n, td)) => {
                        if n > from {
                            from = n - 1;
                        }
                        numbers.push(n);
                        current = td;
                    }
                    None => return ProofAnswer::Silent("sample not found".into()),
                }
            }
            (numbers, last_n)
        } else {
            (Vec::new(), last_n)
        }
    };

    let mut numbers: Vec<u64> = Vec::new();
    numbers.extend(&reorg);
    numbers.extend(&sampled);
    numbers.extend(&last_n);
    let headers: Vec<packed::VerifiableHeader> = numbers
        .iter()
        .map(|n| world.block(view.branch, *n).verifiable())
        .collect();
    let proof = world.gen_proof(view.branch, last_number, &numbers);
    let msg = packed::SendLastStateProof::new_builder()
        .last_header(world.block(view.branch, last_number).verifiable())
        .proof(proof.pack())
        .headers(headers.pack())
        .build();
    ProofAnswer::Reply(
        msg,
        ProofLayout {
            reorg,
            sampled,
            last_n,
            tip_changed: false,
        },
    )
}

pub enum LcAnswer {
    Silent(String),
    Reply(packed::LightClientMessage),
}

pub fn blocks_proof(
    world: &World,
    view: View,
    req: &packed::GetBlocksProof,
    v1: bool,
) -> LcAnswer {
    if req.block_hashes().is_empty() {
        return LcAnswer::Silent("no block".into());
    }
    if req.block_hashes().len() > 1000 {
        return LcAnswer::Silent("too many blocks".into());
    }
    let last_hash = req.last_hash();
    let last_number = match world.number_on_branch(view.branch, &last_hash, view.height) {
        Some(n) => n,
        None => {
            let tip = world.block(view.branch, view.height).verifiable();
            return LcAnswer::Reply(if v1 {
                lc_msg(
                    packed::SendBlocksProofV1::new_builder()
                        .last_header(tip)
                        .build(),
                )
            } else {
                lc_msg(packed::SendBlocksProof::new_builder().last_header(tip).build())
            });
        }
    };
    let hashes: Vec<Byte32> = req.block_hashes().into_iter().collect();
    let mut uniq = HashSet::new();
    if !hashes
        .iter()
        .chain(std::iter::once(&last_hash))
        .all(|h| uniq.insert(h.clone()))
    {
        return LcAnswer::Silent("duplicate block hash".into());
    }
    let mut found: Vec<u64> = Vec::new();
    let mut missing: Vec<Byte32> = Vec::new();
    for h in hashes {
        // A block at or above the last block cannot be proven against its chain root; the
        // model reports it as missing (the real server fails internally and stays silent).
        match world.number_on_branch(view.branch, &h, view.height) {
            Some(n) if n < last_number => found.push(n),
            _ => missing.push(h),
        }
    }
    let headers: Vec<packed::Header> = found
        .iter()
        .map(|n| world.block(view.branch, *n).view.data().header())
        .collect();
    let proof = world.gen_proof(view.branch, last_number, &found);
    let last_header = world.block(view.branch, last_number).verifiable();
    if v1 {
        let uncles: Vec<Byte32> = found
            .iter()
            .map(|n| world.block(view.branch, *n).view.calc_uncles_hash())
            .collect();
        let exts: Vec<packed::BytesOpt> = found
            .iter()
            .map(|n| {
                packed::BytesOpt::new_builder()
                    .set(world.block(view.branch, *n).view.extension())
                    .build()
            })
            .collect();
        LcAnswer::Reply(lc_msg(
            packed::SendBlocksProofV1::new_builder()
                .last_header(last_header)
                .proof(proof.pack())
                .headers(headers.pack())
                .missing_block_hashes(missing.pack())
                .blocks_uncles_hash(uncles.pack())
                .blocks_extension(
                    packed::BytesOptVec::new_builder().set(exts).build(),
                )
                .build(),
        ))
    } else {
        LcAnswer::Reply(lc_msg(
            packed::SendBlocksProof::new_builder()
                .last_header(last_header)
                .proof(proof.pack())
                .headers(headers.pack())
                .missing_block_hashes(missing.pack())
                .build(),
        ))
    }
}

pub fn transactions_proof(
    world: &World,
    view: View,
    req: &packed::GetTransactionsProof,
    v1: bool,
) -> LcAnswer {
    if req.tx_hashes().is_empty() {
        return LcAnswer::Silent("no transaction".into());
    }
    if req.tx_hashes().len() > 1000 {
        return LcAnswer::Silent("too many transactions".into());
    }
    let last_hash = req.last_hash();
    let last_number = match world.number_on_branch(view.branch, &last_hash, view.height) {
        Some(n) => n,
        None => {
            let tip = world.block(view.branch, view.height).verifiable();
            return LcAnswer::Reply(if v1 {
                lc_msg(
                    packed::SendTransactionsProofV1::new_builder()
                        .last_header(tip)
                        .build(),
                )
            } else {
                lc_msg(
                    packed::SendTransactionsProof::new_builder()
                        .last_header(tip)
                        .build(),
                )
            });
        }
    };
    // block number -> tx indices
    let mut by_block: BTreeMap<u64, Vec<u32>> = BTreeMap::new();
    let mut missing: Vec<Byte32> = Vec::new();
    let mut seen = HashSet::new();
    for h in req.tx_hashes().into_iter() {
        if !seen.insert(h.clone()) {
            continue;
        }
        let loc = world.tx_locs.get(&h).and_then(|locs| {
            locs.iter().find_map(|(id, idx)| {
                let n = world.blocks[*id].number();
                if n < last_number && world.branches[view.branch].ids.get(n as usize) == Some(id) {
                    Some((n, *idx))
                } else {
                    None
                }
            })
        });
        match loc {
            Some((n, idx)) => by_block.entry(n).or_default().push(idx),
            None => missing.push(h),
        }
    }
    let mut filtered = Vec::new();
    let mut numbers = Vec::new();
    let mut uncles = Vec::new();
    let mut exts = Vec::new();
    for (n, mut idxs) in by_block {
        idxs.sort();
        let blk = &world.block(view.branch, n).view;
        let all: Vec<Byte32> = blk.transactions().iter().map(|t| t.hash()).collect();
        let proof = CBMT::build_merkle_proof(&all, &idxs).expect("cbmt proof");
        let txs: Vec<packed::Transaction> = idxs
            .iter()
            .map(|i| blk.transactions()[*i as usize].data())
            .collect();
        filtered.push(
            packed::FilteredBlock::new_builder()
                .header(blk.data().header())
                .witnesses_root(blk.calc_witnesses_root())
                .transactions(txs.pack())
                .proof(
                    packed::MerkleProof::new_builder()
                        .indices(proof.indices().to_owned().pack())
                        .lemmas(proof.lemmas().to_owned().pack())
                        .build(),
                )
                .build(),
        );
        numbers.push(n);
        uncles.push(blk.calc_uncles_hash());
        exts.push(packed::BytesOpt::new_builder().set(blk.extension()).build());
    }
    let proof = world.gen_proof(view.branch, last_number, &numbers);
    let last_header = world.block(view.branch, last_number).verifiable();
    let items = packed::FilteredBlockVec::new_builder().set(filtered).build();
    if v1 {
        LcAnswer::Reply(lc_msg(
            packed::SendTransactionsProofV1::new_builder()
                .last_header(last_header)
                .proof(proof.pack())
                .filtered_blocks(items)
                .missing_tx_hashes(missing.pack())
                .blocks_uncles_hash(uncles.pack())
                .blocks_extension(packed::BytesOptVec::new_builder().set(exts).build())
                .build(),
        ))
    } else {
        LcAnswer::Reply(lc_msg(
            packed::SendTransactionsProof::new_builder()
                .last_header(last_header)
                .proof(proof.pack())
                .filtered_blocks(items)
                .missing_tx_hashes(missing.pack())
                .build(),
        ))
    }
}

pub fn filter_msg<T: Into<packed::BlockFilterMessageUnion>>(
    content: T,
) -> packed::BlockFilterMessage {
    packed::BlockFilterMessage::new_builder().set(content).build()
}

pub fn block_filters(
    world: &World,
    view: View,
    cfg: &ServerCfg,
    start_number: BlockNumber,
) -> Option<packed::BlockFilters> {
    if view.height < start_number {
        return None;
    }
    let end = std::cmp::min(view.height + 1, start_number.saturating_add(cfg.filters_batch));
    let mut hashes = Vec::new();
    let mut filters = Vec::new();
    for n in start_number..end {
        let b = world.block(view.branch, n);
        hashes.push(b.hash());
        filters.push(b.filter.clone());
    }
    Some(
        packed::BlockFilters::new_builder()
            .start_number(start_number.pack())
            .block_hashes(hashes.pack())
            .filters(filters.pack())
            .build(),
    )
}

pub fn block_filter_hashes(
    world: &World,
    view: View,
    cfg: &ServerCfg,
    start_number: BlockNumber,
) -> Option<packed::BlockFilterHashes> {
    if view.height < start_number {
        return None;
    }
    let end = std::cmp::min(view.height + 1, start_number.saturating_add(cfg.hashes_batch));
    let parent = if start_number > 0 {
        world.block(view.branch, start_number - 1).filter_hash.clone()
    } else {
        Byte32::zero()
    };
    let hashes: Vec<Byte32> = (start_number..end)
        .map(|n| world.block(view.branch, n).filter_hash.clone())
        .collect();
    Some(
        packed::BlockFilterHashes::new_builder()
            .start_number(start_number.pack())
            .parent_block_filter_hash(parent)
            .block_filter_hashes(hashes.pack())
            .build(),
    )
}

pub fn block_filter_check_points(
    world: &World,
    view: View,
    cfg: &ServerCfg,
    start_number: BlockNumber,
) -> Option<packed::BlockFilterCheckPoints> {
    if view.height < start_number {
        return None;
    }
    let mut hashes = Vec::new();
    let mut n = start_number;
    for _ in 0..cfg.check_points_batch {
        if n > view.height {
            break;
        }
        hashes.push(world.block(view.branch, n).filter_hash.clone());
        n = match n.checked_add(cfg.check_point_interval) {
            Some(v) => v,
            None => break,
        };
    }
    Some(
        packed::BlockFilterCheckPoints::new_builder()
            .start_number(start_number.pack())
            .block_filter_hashes(hashes.pack())
            .build(),
    )
}

pub fn send_block(world: &World, hash: &Byte32) -> Option<packed::SyncMessage> {
    world.by_hash.get(hash).map(|id| {
        let content = packed::SendBlock::new_builder()
            .block(world.blocks[*id].view.data())
            .build();
        packed::SyncMessage::new_builder().set(content).build()
    })
}

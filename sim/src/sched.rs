//! C17, randomized multi-thread runs: up to four real OS threads (the history's event A on
//! the simulator thread, the paired operations on their own threads) are parked at the
//! intercepted points (storage writes, matched-blocks lock intents, query iterations) and a
//! seeded scheduler decides who proceeds; one thread is released at a time. A released thread
//! runs until its next parking point, until it has finished, or until it is seen blocked (it
//! waits for a lock another parked thread holds) - then the next one is chosen.
//!
//! Who runs is a pure function of the schedule seed as long as "blocked" is classified
//! correctly; that classification is read from the kernel's scheduler state of the thread
//! (`/proc/self/task/<tid>/stat`), the one real-time element (see DESIGN 8.8).

use std::sync::atomic::{AtomicBool, Ordering};
use std::sync::{Condvar, Mutex};
use std::time::{Duration, Instant};

#[derive(Clone, Copy, PartialEq, Eq, Debug)]
enum TState {
    /// released (running, or asleep in the kernel waiting for a lock)
    Running,
    /// inside a hook, waiting for the scheduler; `true`: at a lock intent
    Parked(bool),
    Done,
}

struct Shared {
    state: Vec<TState>,
    grant: Vec<bool>,
    tid: Vec<u64>,
    /// parking points left per thread (further points are passed without parking)
    budget: Vec<u32>,
    /// per thread: own boundary ordinal and private stream deciding where it parks
    ord: Vec<u64>,
    stream: Vec<u64>,
    /// 1 in `park_one_in` boundaries is a parking point
    park_one_in: u64,
    /// set when the controller gave up (deadlock): every hook returns at once
    abort: bool,
    names: Vec<String>,
}

static ACTIVE: AtomicBool = AtomicBool::new(false);
static SHARED: Mutex<Option<Shared>> = Mutex::new(None);
static CV: Condvar = Condvar::new();

thread_local! {
    static SLOT: std::cell::Cell<Option<usize>> = std::cell::Cell::new(None);
}

fn lock() -> std::sync::MutexGuard<'static, Option<Shared>> {
    SHARED.lock().unwrap_or_else(|e| e.into_inner())
}

fn next(stream: &mut u64) -> u64 {
    *stream = crate::entropy::mix(&[*stream, 0x5c4ed]);
    *stream
}

/// Prepares a run with `n` threads.
pub fn begin(n: usize, seed: u64, park_one_in: u64, budget: u32) {
    *lock() = Some(Shared {
        state: vec![TState::Running; n],
        grant: vec![false; n],
        tid: vec![0; n],
        budget: vec![budget; n],
        ord: vec![0; n],
        stream: (0..n).map(|i| crate::entropy::mix(&[seed, 0x7153, i as u64])).collect(),
        park_one_in: park_one_in.max(1),
        abort: false,
        names: vec![String::new(); n],
    });
    ACTIVE.store(true, Ordering::SeqCst);
}

pub fn end() {
    ACTIVE.store(false, Ordering::SeqCst);
    *lock() = None;
}

fn park(slot: usize, is_lock: bool, name: &str) {
    let mut g = lock();
    match g.as_mut() {
        Some(s) if !s.abort => {
            s.state[slot] = TState::Parked(is_lock);
            s.names[slot] = name.to_string();
        }
        _ => return,
    }
    CV.notify_all();
    loop {
        match g.as_mut() {
            Some(s) if !s.abort => {
                if s.grant[slot] {
                    s.grant[slot] = false;
                    s.state[slot] = TState::Running;
                    return;
                }
            }
            _ => return,
        }
        g = CV.wait_timeout(g, Duration::from_millis(200)).unwrap_or_else(|e| e.into_inner()).0;
    }
}

/// Called by a participating thread before it starts its operation.
pub fn thread_start(slot: usize) {
    SLOT.with(|s| s.set(Some(slot)));
    {
        let mut g = lock();
        if let Some(s) = g.as_mut() {
            s.tid[slot] = unsafe { libc::syscall(libc::SYS_gettid) } as u64;
        }
    }
    park(slot, false, "start");
}

/// Called by a participating thread after its operation returned (or unwound).
pub fn thread_done() {
    let slot = SLOT.with(|s| s.take());
    if let Some(slot) = slot {
        let mut g = lock();
        if let Some(s) = g.as_mut() {
            s.state[slot] = TState::Done;
        }
        CV.notify_all();
    }
}

/// From the hook: this thread reached a boundary.
pub fn at_boundary(is_lock: bool, name: &str) {
    if !ACTIVE.load(Ordering::SeqCst) {
        return;
    }
    let slot = match SLOT.try_with(|s| s.get()) {
        Ok(Some(s)) => s,
        _ => return,
    };
    let park_here = {
        let mut g = lock();
        match g.as_mut() {
            Some(s) if !s.abort => {
                s.ord[slot] += 1;
                let one_in = s.park_one_in;
                let draw = next(&mut s.stream[slot]);
                // lock intents are always parking points while the budget lasts: they are few
                // and they are where check-then-act around the lock shows
                if s.budget[slot] > 0 && (is_lock || draw % one_in == 0) {
                    s.budget[slot] -= 1;
                    true
                } else {
                    false
                }
            }
            _ => false,
        }
    };
    if park_here {
        park(slot, is_lock, name);
    }
}

fn thread_state(tid: u64) -> char {
    if tid == 0 {
        return 'R';
    }
    std::fs::read_to_string(format!("/proc/self/task/{}/stat", tid))
        .ok()
        .and_then(|s| s.rsplit(')').next().map(|r| r.trim_start().chars().next().unwrap_or('R')))
        .unwrap_or('R')
}

pub struct Report {
    /// (thread, where it was parked) in the order the scheduler released them
    pub schedule: Vec<(usize, String)>,
    pub deadlock: bool,
    /// how often a released thread was seen blocked
    pub blocked_seen: u64,
}

/// The scheduler: runs on its own thread until every participating thread is done.
pub fn control(n: usize, seed: u64) -> Report {
    let mut rng = crate::entropy::mix(&[seed, 0xc0417]);
    let mut schedule = Vec::new();
    let mut blocked_seen = 0u64;
    // per thread: consecutive polls asleep, when it was last released, known blocked?
    let mut asleep = vec![0u32; n];
    let mut released_at = vec![Instant::now(); n];
    let mut blocked = vec![false; n];
    let t_start = Instant::now();
    loop {
        // wait until every thread is parked, done, or asleep in the kernel for long enough
        let t_wait = Instant::now();
        let mut fresh = 0u32;
        let settled = loop {
            let (states, tids) = {
                let g = lock();
                match g.as_ref() {
                    Some(s) => (s.state.clone(), s.tid.clone()),
                    None => return Report { schedule, deadlock: false, blocked_seen },
                }
            };
            let mut all = true;
            let mut any_running = false;
            for i in 0..n {
                if states[i] == TState::Running {
                    any_running = true;
                    if thread_state(tids[i]) == 'S' {
                        asleep[i] += 1;
                    } else {
                        asleep[i] = 0;
                        blocked[i] = false;
                    }
                    // first classification: asleep at every poll of the last 100 ms and released
                    // at least 250 ms ago; afterwards: still asleep at every poll since
                    let ok = if blocked[i] {
                        asleep[i] > 0
                    } else {
                        asleep[i] >= 50 && released_at[i].elapsed() >= Duration::from_millis(250)
                    };
                    if ok {
                        if !blocked[i] {
                            blocked[i] = true;
                            blocked_seen += 1;
                        }
                    } else {
                        all = false;
                    }
                } else {
                    asleep[i] = 0;
                    blocked[i] = false;
                }
            }
            if all {
                // threads known blocked must stay asleep over a few fresh polls after everybody
                // else settled (the lock they wait for may just have been released)
                fresh += 1;
                if !any_running || fresh >= 6 {
                    break true;
                }
            } else {
                fresh = 0;
            }
            if t_wait.elapsed() > Duration::from_secs(20) {
                break false;
            }
            std::thread::sleep(Duration::from_millis(2));
        };
        let mut g = lock();
        let s = match g.as_mut() {
            Some(s) => s,
            None => return Report { schedule, deadlock: false, blocked_seen },
        };
        if s.state.iter().all(|t| *t == TState::Done) {
            return Report { schedule, deadlock: false, blocked_seen };
        }
        let parked: Vec<usize> = (0..n).filter(|i| matches!(s.state[*i], TState::Parked(_))).collect();
        if parked.is_empty() {
            // nobody can be released: the remaining threads wait for each other (settled), or a
            // thread ran for 20 s without reaching a boundary or its end
            if !settled && t_start.elapsed() < Duration::from_secs(60) {
                continue;
            }
            s.abort = true;
            CV.notify_all();
            return Report { schedule, deadlock: true, blocked_seen };
        }
        // while a thread is blocked, taking the lock cannot succeed: prefer the others (the
        // holder is among them), so that at most one thread waits for the lock at a time and the
        // order in which waiters get it is not left to the kernel
        let someone_blocked = (0..n).any(|i| s.state[i] == TState::Running);
        let mut eligible: Vec<usize> = if someone_blocked {
            parked.iter().cloned().filter(|i| s.state[*i] != TState::Parked(true)).collect()
        } else {
            parked.clone()
        };
        if eligible.is_empty() {
            eligible = parked;
        }
        let pick = eligible[(next(&mut rng) % eligible.len() as u64) as usize];
        schedule.push((pick, s.names[pick].clone()));
        s.grant[pick] = true;
        s.state[pick] = TState::Running;
        released_at[pick] = Instant::now();
        asleep[pick] = 0;
        blocked[pick] = false;
        CV.notify_all();
    }
}

//! Transport seam: the `CKBProtocolContext` the client's protocol handlers talk to.
//! Everything the client does to the network is appended to an outbox which the
//! simulator drains after the handler returned.

use std::collections::HashMap;
use std::future::Future;
use std::pin::Pin;
use std::sync::{Arc, Mutex};
use std::time::Duration;

use ckb_network::{
    async_trait, bytes::Bytes, multiaddr::Multiaddr, Behaviour, CKBProtocolContext, Error, Peer,
    PeerId, PeerIndex, ProtocolId, ServiceControl, SessionType, SupportProtocols, TargetSession,
};

#[derive(Clone, Debug)]
pub enum Out {
    Send {
        proto: ProtocolId,
        peer: PeerIndex,
        data: Bytes,
    },
    Ban {
        proto: ProtocolId,
        peer: PeerIndex,
        dur: Duration,
        reason: String,
    },
    Disconnect {
        proto: ProtocolId,
        peer: PeerIndex,
        msg: String,
    },
    SetNotify {
        proto: ProtocolId,
        interval: Duration,
        token: u64,
    },
}

pub struct NetShared {
    pub outbox: Mutex<Vec<Out>>,
    pub peers: Mutex<HashMap<PeerIndex, Peer>>,
    pub p2p: Mutex<Option<ServiceControl>>,
    pub p2p_static: std::sync::OnceLock<ServiceControl>,
}

impl NetShared {
    pub fn new() -> Arc<NetShared> {
        Arc::new(NetShared {
            outbox: Mutex::new(Vec::new()),
            peers: Mutex::new(HashMap::new()),
            p2p: Mutex::new(None),
            p2p_static: std::sync::OnceLock::new(),
        })
    }
    /// A control handle of a tentacle service that is never run: open / close requests of
    /// the relay protocol are queued and dropped (the plan's RelayOpen / RelayClose actions
    /// play the network's part).
    pub fn install_p2p_control(&self) {
        let service = p2p::builder::ServiceBuilder::default().build(());
        let control: ServiceControl = service.control().clone().into();
        let _ = self.p2p_static.set(control);
        std::mem::forget(service);
    }
    pub fn drain(&self) -> Vec<Out> {
        std::mem::take(&mut *self.outbox.lock().unwrap_or_else(|e| e.into_inner()))
    }
    fn push(&self, o: Out) {
        self.outbox
            .lock()
            .unwrap_or_else(|e| e.into_inner())
            .push(o);
    }
    pub fn add_peer(&self, index: PeerIndex, identity: u64) {
        let peer = Peer::new(index, SessionType::Outbound, peer_addr(identity), false);
        self.peers
            .lock()
            .unwrap_or_else(|e| e.into_inner())
            .insert(index, peer);
    }
    pub fn remove_peer(&self, index: PeerIndex) {
        self.peers
            .lock()
            .unwrap_or_else(|e| e.into_inner())
            .remove(&index);
    }
}

pub fn peer_id(identity: u64) -> PeerId {
    let mut bytes = vec![0x12u8, 0x20];
    let mut x = identity ^ 0x5eed;
    for _ in 0..4 {
        bytes.extend_from_slice(&crate::entropy::splitmix(&mut x).to_le_bytes());
    }
    PeerId::from_bytes(bytes).expect("valid peer id bytes")
}

pub fn peer_addr(identity: u64) -> Multiaddr {
    format!(
        "/ip4/10.0.{}.{}/tcp/8114/p2p/{}",
        (identity >> 8) & 0xff,
        identity & 0xff,
        peer_id(identity).to_base58()
    )
    .parse()
    .expect("multiaddr")
}

pub struct SimContext {
    pub proto: ProtocolId,
    pub shared: Arc<NetShared>,
}

impl SimContext {
    pub fn new(proto: SupportProtocols, shared: Arc<NetShared>) -> Arc<SimContext> {
        Arc::new(SimContext {
            proto: proto.protocol_id(),
            shared,
        })
    }
}

type BoxedFutureTask = Pin<Box<dyn Future<Output = ()> + 'static + Send>>;

#[async_trait]
impl CKBProtocolContext for SimContext {
    fn ckb2023(&self) -> bool {
        false
    }
    async fn set_notify(&self, interval: Duration, token: u64) -> Result<(), Error> {
        self.shared.push(Out::SetNotify {
            proto: self.proto,
            interval,
            token,
        });
        Ok(())
    }
    async fn remove_notify(&self, _token: u64) -> Result<(), Error> {
        Ok(())
    }
    async fn async_quick_send_message(
        &self,
        proto_id: ProtocolId,
        peer_index: PeerIndex,
        data: Bytes,
    ) -> Result<(), Error> {
        self.send_message(proto_id, peer_index, data)
    }
    async fn async_quick_send_message_to(
        &self,
        peer_index: PeerIndex,
        data: Bytes,
    ) -> Result<(), Error> {
        self.send_message(self.proto, peer_index, data)
    }
    async fn async_quick_filter_broadcast(
        &self,
        _target: TargetSession,
        _data: Bytes,
    ) -> Result<(), Error> {
        Ok(())
    }
    async fn async_future_task(&self, _task: BoxedFutureTask, _blocking: bool) -> Result<(), Error> {
        Ok(())
    }
    async fn async_send_message(
        &self,
        proto_id: ProtocolId,
        peer_index: PeerIndex,
        data: Bytes,
    ) -> Result<(), Error> {
        self.send_message(proto_id, peer_index, data)
    }
    async fn async_send_message_to(&self, peer_index: PeerIndex, data: Bytes) -> Result<(), Error> {
        self.send_message(self.proto, peer_index, data)
    }
    async fn async_filter_broadcast(
        &self,
        _target: TargetSession,
        _data: Bytes,
    ) -> Result<(), Error> {
        Ok(())
    }
    async fn async_disconnect(&self, peer_index: PeerIndex, message: &str) -> Result<(), Error> {
        self.disconnect(peer_index, message)
    }
    fn quick_send_message(
        &self,
        proto_id: ProtocolId,
        peer_index: PeerIndex,
        data: Bytes,
    ) -> Result<(), Error> {
        self.send_message(proto_id, peer_index, data)
    }
    fn quick_send_message_to(&self, peer_index: PeerIndex, data: Bytes) -> Result<(), Error> {
        self.send_message(self.proto, peer_index, data)
    }
    fn quick_filter_broadcast(&self, _target: TargetSession, _data: Bytes) -> Result<(), Error> {
        Ok(())
    }
    fn future_task(&self, _task: BoxedFutureTask, _blocking: bool) -> Result<(), Error> {
        Ok(())
    }
    fn send_message(
        &self,
        proto_id: ProtocolId,
        peer_index: PeerIndex,
        data: Bytes,
    ) -> Result<(), Error> {
        self.shared.push(Out::Send {
            proto: proto_id,
            peer: peer_index,
            data,
        });
        Ok(())
    }
    fn send_message_to(&self, peer_index: PeerIndex, data: Bytes) -> Result<(), Error> {
        self.send_message(self.proto, peer_index, data)
    }
    fn filter_broadcast(&self, _target: TargetSession, _data: Bytes) -> Result<(), Error> {
        Ok(())
    }
    fn disconnect(&self, peer_index: PeerIndex, message: &str) -> Result<(), Error> {
        self.shared.push(Out::Disconnect {
            proto: self.proto,
            peer: peer_index,
            msg: message.to_owned(),
        });
        Ok(())
    }
    fn get_peer(&self, peer_index: PeerIndex) -> Option<Peer> {
        self.shared
            .peers
            .lock()
            .unwrap_or_else(|e| e.into_inner())
            .get(&peer_index)
            .cloned()
    }
    fn with_peer_mut(&self, peer_index: PeerIndex, f: Box<dyn FnOnce(&mut Peer)>) {
        if let Some(p) = self
            .shared
            .peers
            .lock()
            .unwrap_or_else(|e| e.into_inner())
            .get_mut(&peer_index)
        {
            f(p)
        }
    }
    fn connected_peers(&self) -> Vec<PeerIndex> {
        let mut v: Vec<PeerIndex> = self
            .shared
            .peers
            .lock()
            .unwrap_or_else(|e| e.into_inner())
            .keys()
            .cloned()
            .collect();
        v.sort();
        v
    }
    fn report_peer(&self, _peer_index: PeerIndex, _behaviour: Behaviour) {}
    fn ban_peer(&self, peer_index: PeerIndex, duration: Duration, reason: String) {
        self.shared.push(Out::Ban {
            proto: self.proto,
            peer: peer_index,
            dur: duration,
            reason,
        });
    }
    fn protocol_id(&self) -> ProtocolId {
        self.proto
    }
    fn p2p_control(&self) -> Option<&ServiceControl> {
        self.shared.p2p_static.get()
    }
}

//! Entropy seam.
//!
//! * `Rng`: the harness' own PRNG (xoshiro256**), every simulator choice is drawn from it.
//! * `getrandom`: overrides the libc symbol of the same name for the whole binary. std's
//!   `RandomState` (HashMap / HashSet / DashMap iteration order) reaches it through its
//!   weak `getrandom` reference, `rand::thread_rng()` reaches it through the patched
//!   `getrandom` crate in /verif/vendor. A thread that called `install(seed)` gets a
//!   deterministic stream; every other thread (RocksDB background threads, …) falls
//!   through to the real system call.

use std::cell::Cell;

#[derive(Clone, Debug)]
pub struct Rng {
    s: [u64; 4],
}

pub fn splitmix(x: &mut u64) -> u64 {
    *x = x.wrapping_add(0x9E3779B97F4A7C15);
    let mut z = *x;
    z = (z ^ (z >> 30)).wrapping_mul(0xBF58476D1CE4E5B9);
    z = (z ^ (z >> 27)).wrapping_mul(0x94D049BB133111EB);
    z ^ (z >> 31)
}

/// Mixes several integers into one seed (order dependent).
pub fn mix(parts: &[u64]) -> u64 {
    let mut h: u64 = 0x243F6A8885A308D3;
    for p in parts {
        h ^= *p;
        let mut t = h;
        h = splitmix(&mut t).rotate_left(17) ^ t;
    }
    h
}

pub fn hash_str(s: &str) -> u64 {
    let mut h: u64 = 0xcbf29ce484222325;
    for b in s.bytes() {
        h ^= b as u64;
        h = h.wrapping_mul(0x100000001b3);
    }
    h
}

impl Rng {
    pub fn new(seed: u64) -> Self {
        let mut x = seed;
        let s = [
            splitmix(&mut x),
            splitmix(&mut x),
            splitmix(&mut x),
            splitmix(&mut x),
        ];
        Rng { s }
    }
    pub fn next_u64(&mut self) -> u64 {
        let result = self.s[1].wrapping_mul(5).rotate_left(7).wrapping_mul(9);
        let t = self.s[1] << 17;
        self.s[2] ^= self.s[0];
        self.s[3] ^= self.s[1];
        self.s[1] ^= self.s[2];
        self.s[0] ^= self.s[3];
        self.s[2] ^= t;
        self.s[3] = self.s[3].rotate_left(45);
        result
    }
    /// Uniform in [0, n). n must be > 0.
    pub fn below(&mut self, n: u64) -> u64 {
        debug_assert!(n > 0);
        // multiply-shift; bias is irrelevant here
        ((self.next_u64() as u128 * n as u128) >> 64) as u64
    }
    /// Uniform in [lo, hi] inclusive.
    pub fn range(&mut self, lo: u64, hi: u64) -> u64 {
        debug_assert!(lo <= hi);
        lo + self.below(hi - lo + 1)
    }
    pub fn usize_below(&mut self, n: usize) -> usize {
        self.below(n as u64) as usize
    }
    /// True with probability num/den.
    pub fn chance(&mut self, num: u64, den: u64) -> bool {
        self.below(den) < num
    }
    pub fn f64(&mut self) -> f64 {
        (self.next_u64() >> 11) as f64 / (1u64 << 53) as f64
    }
    pub fn pick<'a, T>(&mut self, xs: &'a [T]) -> &'a T {
        &xs[self.usize_below(xs.len())]
    }
    pub fn fork(&mut self, tag: u64) -> Rng {
        Rng::new(mix(&[self.next_u64(), tag]))
    }
    pub fn fill(&mut self, buf: &mut [u8]) {
        for chunk in buf.chunks_mut(8) {
            let v = self.next_u64().to_le_bytes();
            chunk.copy_from_slice(&v[..chunk.len()]);
        }
    }
    pub fn shuffle<T>(&mut self, xs: &mut [T]) {
        for i in (1..xs.len()).rev() {
            let j = self.usize_below(i + 1);
            xs.swap(i, j);
        }
    }
}

thread_local! {
    // (installed, state)
    static SRC_ON: Cell<bool> = const { Cell::new(false) };
    static SRC_STATE: Cell<u64> = const { Cell::new(0) };
    static SRC_CALLS: Cell<u64> = const { Cell::new(0) };
}

/// Makes every `getrandom` call of *this thread* deterministic from `seed`.
pub fn install(seed: u64) {
    SRC_STATE.with(|s| s.set(seed));
    SRC_CALLS.with(|s| s.set(0));
    SRC_ON.with(|s| s.set(true));
}

pub fn uninstall() {
    SRC_ON.with(|s| s.set(false));
}

/// Number of entropy requests served to this thread since `install`.
pub fn calls() -> u64 {
    SRC_CALLS.with(|s| s.get())
}

/// The process-wide override of libc's `getrandom`.
///
/// # Safety
/// Same contract as getrandom(2).
#[no_mangle]
pub unsafe extern "C" fn getrandom(
    buf: *mut libc::c_void,
    buflen: libc::size_t,
    flags: libc::c_uint,
) -> libc::ssize_t {
    let on = SRC_ON.try_with(|s| s.get()).unwrap_or(false);
    if !on || buf.is_null() {
        return libc::syscall(libc::SYS_getrandom, buf, buflen, flags) as libc::ssize_t;
    }
    let out = std::slice::from_raw_parts_mut(buf as *mut u8, buflen);
    SRC_STATE.with(|s| {
        let mut st = s.get();
        for chunk in out.chunks_mut(8) {
            let v = splitmix(&mut st).to_le_bytes();
            chunk.copy_from_slice(&v[..chunk.len()]);
        }
        s.set(st);
    });
    SRC_CALLS.with(|s| s.set(s.get() + 1));
    buflen as libc::ssize_t
}

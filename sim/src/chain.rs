//! Ground truth: a tree of real CKB blocks (variable difficulty, real MMR chain roots,
//! RFC-45 filters, a generated transaction graph) which the simulated full nodes serve.

use std::collections::HashMap;

use ckb_chain_spec::consensus::{build_genesis_epoch_ext, Consensus, ConsensusBuilder};
use ckb_merkle_mountain_range::{leaf_index_to_mmr_size, leaf_index_to_pos, util::MemStore, MMR};
use ckb_pow::Pow;
use ckb_types::{
    bytes::Bytes,
    core::{
        BlockBuilder, BlockView, Capacity, EpochNumberWithFraction, HeaderView, ScriptHashType,
        TransactionBuilder, TransactionView,
    },
    packed::{self, Byte32, CellInput, CellOutput, OutPoint, Script},
    prelude::*,
    utilities::{
        build_filter_data, calc_filter_hash, compact_to_difficulty, compact_to_target,
        difficulty_to_compact,
        merkle_mountain_range::{ChainRootMMR, MergeHeaderDigest},
        FilterDataProvider,
    },
    U256,
};

use crate::entropy::Rng;

/// Simulated "now" at the start of every run (unix ms).
pub const T0: u64 = 1_700_000_000_000;

pub const ALWAYS_SUCCESS_BIN: &[u8] = include_bytes!("../reposrc/tests/specs/cells/always_success");

#[derive(Clone, Copy, Debug, PartialEq, Eq, serde::Serialize, serde::Deserialize)]
pub enum PowKind {
    Dummy,
    Eaglesong,
}

#[derive(Clone, Debug, PartialEq, serde::Serialize, serde::Deserialize)]
pub struct ChainParams {
    pub seed: u64,
    pub pow: PowKind,
    /// block difficulty of epoch 0
    pub base_difficulty: u64,
    /// inclusive range of epoch lengths
    pub epoch_len: (u64, u64),
    /// how strongly the epoch difficulty drifts: 0 = constant, 100 = up to the tau bound
    pub drift: u64,
    /// max non-cellbase transactions per block
    pub max_txs: u64,
    /// number of lock scripts / type scripts in the pool
    pub n_locks: usize,
    pub n_types: usize,
    /// probability (percent) that a block carries extra bytes after the chain root
    pub ext_extra_pct: u64,
    /// epoch difficulty trend: 0 random walk, 1 sustained increase, 2 sustained decrease,
    /// 3 runs of several epochs in one direction
    #[serde(default)]
    pub trend: u64,
    /// a new branch re-commits the transactions of the blocks it abandons (they return to the
    /// miners' pool), in the same order but at other heights / indexes
    #[serde(default)]
    pub recommit: bool,
}

impl Default for ChainParams {
    fn default() -> Self {
        ChainParams {
            seed: 1,
            pow: PowKind::Dummy,
            base_difficulty: 1000,
            epoch_len: (5, 24),
            drift: 100,
            max_txs: 3,
            n_locks: 5,
            n_types: 2,
            ext_extra_pct: 20,
            trend: 0,
            recommit: false,
        }
    }
}

#[derive(Clone)]
pub struct LiveCell {
    pub out_point: OutPoint,
    pub output: CellOutput,
    pub data: Bytes,
    pub number: u64,
    pub tx_index: u32,
}

pub struct WBlock {
    pub view: BlockView,
    pub parent: Option<usize>,
    /// total difficulty including this block
    pub td: U256,
    /// MMR root over all ancestors (default digest for genesis)
    pub parent_root: packed::HeaderDigest,
    pub filter: packed::Bytes,
    pub filter_hash: Byte32,
}

impl WBlock {
    pub fn number(&self) -> u64 {
        self.view.number()
    }
    pub fn hash(&self) -> Byte32 {
        self.view.hash()
    }
    pub fn header(&self) -> HeaderView {
        self.view.header()
    }
    pub fn verifiable(&self) -> packed::VerifiableHeader {
        packed::VerifiableHeader::new_builder()
            .header(self.view.data().header())
            .uncles_hash(self.view.calc_uncles_hash())
            .extension(Pack::pack(&self.view.extension()))
            .parent_chain_root(self.parent_root.clone())
            .build()
    }
}

pub struct Branch {
    /// arena ids by block number (ids[0] is the genesis)
    pub ids: Vec<usize>,
    store: MemStore<packed::HeaderDigest>,
    mmr_size: u64,
    pub live: Vec<LiveCell>,
    rng: Rng,
    /// a forged block was mined on this branch: no honest difficulty adjustment after it
    pub forged: bool,
    /// transactions of the abandoned blocks of the source branch, still to be re-committed
    pub orphans: Vec<TransactionView>,
    /// blocks to mine before the first of them is taken up again
    pub orphan_wait: u64,
}

pub struct World {
    pub params: ChainParams,
    pub blocks: Vec<WBlock>,
    pub by_hash: HashMap<Byte32, usize>,
    pub branches: Vec<Branch>,
    pub consensus: Consensus,
    pub locks: Vec<Script>,
    pub types: Vec<Script>,
    /// every transaction ever put into a block (any branch)
    pub txs: HashMap<Byte32, TransactionView>,
    /// tx hash -> (arena id of a containing block, index); one entry per containing block
    pub tx_locs: HashMap<Byte32, Vec<(usize, u32)>>,
    pub always_success_dep: packed::CellDep,
    /// epoch number -> (length, compact target): one difficulty schedule for all branches
    /// (competing branches with different difficulty in the same epoch are not explored)
    pub epoch_plan: HashMap<u64, (u64, u32)>,
    /// (kind, salt): the next mined block carries a forged epoch / compact target (an attacker's
    /// block: self-consistent hash, chain root and PoW, inconsistent difficulty fields)
    pub forge_next: Option<(u8, u64)>,
    /// (branch, kind, salt): the first block of the next epoch on that branch declares a forged
    /// epoch length (the MMR merge fixes the length only within an epoch)
    pub forge_epoch: Option<(usize, u8, u64)>,
}

struct TxProvider<'a>(&'a HashMap<Byte32, TransactionView>);
impl<'a> FilterDataProvider for TxProvider<'a> {
    fn cell(&self, out_point: &OutPoint) -> Option<CellOutput> {
        self.0
            .get(&out_point.tx_hash())
            .and_then(|tx| tx.outputs().get(out_point.index().unpack()))
    }
}

pub fn always_success_script(args: &[u8]) -> Script {
    Script::new_builder()
        .hash_type(ScriptHashType::Data.into())
        .code_hash(CellOutput::calc_data_hash(ALWAYS_SUCCESS_BIN))
        .args(Bytes::copy_from_slice(args).pack())
        .build()
}

fn other_script(code: u8, args: &[u8]) -> Script {
    Script::new_builder()
        .hash_type(ScriptHashType::Type.into())
        .code_hash([code; 32].pack())
        .args(Bytes::copy_from_slice(args).pack())
        .build()
}

fn real_difficulty(d: u64) -> (u32, U256) {
    let compact = difficulty_to_compact(U256::from(d.max(2)));
    (compact, compact_to_difficulty(compact))
}

pub fn mine_header(pow: PowKind, header: packed::Header) -> packed::Header {
    match pow {
        PowKind::Dummy => header,
        PowKind::Eaglesong => {
            let pow_hash = header.as_reader().calc_pow_hash();
            let (target, _) = compact_to_target(header.raw().compact_target().unpack());
            let mut nonce: u128 = 0;
            loop {
                let input = ckb_pow::pow_message(&pow_hash, nonce);
                let mut output = [0u8; 32];
                eaglesong::eaglesong(&input, &mut output);
                if U256::from_big_endian(&output[..]).expect("32 bytes") <= target {
                    break;
                }
                nonce += 1;
            }
            header.as_builder().nonce(nonce.pack()).build()
        }
    }
}

fn mine(pow: PowKind, block: BlockView) -> BlockView {
    match pow {
        PowKind::Dummy => block,
        PowKind::Eaglesong => {
            let header = block.header();
            let pow_hash = header.data().as_reader().calc_pow_hash();
            let (target, _) = compact_to_target(header.compact_target());
            let mut nonce: u128 = 0;
            loop {
                let input = ckb_pow::pow_message(&pow_hash, nonce);
                let mut output = [0u8; 32];
                eaglesong::eaglesong(&input, &mut output);
                if U256::from_big_endian(&output[..]).expect("32 bytes") <= target {
                    break;
                }
                nonce += 1;
            }
            let header = header.as_advanced_builder().nonce(nonce.pack()).build();
            let b = block.as_advanced_builder().header(header).build();
            debug_assert!(Pow::Eaglesong.engine().verify(&b.header().data()));
            b
        }
    }
}

impl World {
    pub fn new(params: ChainParams) -> World {
        let mut rng = Rng::new(params.seed);
        // Script pool: always-success locks with args sharing prefixes, plus a foreign code hash.
        let mut locks = Vec::new();
        for i in 0..params.n_locks.max(1) {
            let args: Vec<u8> = match i % 5 {
                0 => vec![0xa0],
                1 => vec![0xa0, 0x01],
                2 => vec![0xa0, 0x01, 0x02],
                3 => vec![0xb0 + (i as u8)],
                _ => vec![],
            };
            if i % 4 == 3 {
                locks.push(other_script(0x77, &args));
            } else {
                let mut a = args.clone();
                if i >= 5 {
                    a.push(i as u8);
                }
                locks.push(always_success_script(&a));
            }
        }
        let mut types = Vec::new();
        for i in 0..params.n_types {
            types.push(always_success_script(&[0xee, i as u8]));
        }

        // Genesis: cellbase carrying the always-success binary + a few funded cells.
        let (compact, diff) = real_difficulty(params.base_difficulty);
        let mut outputs = Vec::new();
        let mut outputs_data: Vec<Bytes> = Vec::new();
        outputs.push(
            CellOutput::new_builder()
                .capacity(Capacity::shannons(1_000_000_0000_0000).pack())
                .lock(always_success_script(&[0xff]))
                .build(),
        );
        outputs_data.push(Bytes::from_static(ALWAYS_SUCCESS_BIN));
        for (i, lock) in locks.iter().enumerate() {
            outputs.push(
                CellOutput::new_builder()
                    .capacity(Capacity::shannons(5_000_0000_0000 + i as u64).pack())
                    .lock(lock.clone())
                    .build(),
            );
            outputs_data.push(Bytes::new());
        }
        let cellbase = TransactionBuilder::default()
            .input(CellInput::new_cellbase_input(0))
            .outputs(outputs)
            .outputs_data(outputs_data.iter().map(|d| d.pack()))
            .witness(Script::default().into_witness())
            .build();
        let always_success_dep = packed::CellDep::new_builder()
            .out_point(OutPoint::new(cellbase.hash(), 0))
            .build();
        let genesis = BlockBuilder::default()
            .compact_target(compact.pack())
            .epoch(EpochNumberWithFraction::new_unchecked(0, 0, 0).pack())
            .timestamp((T0 - 30 * 24 * 3600 * 1000u64).pack())
            .dao(Byte32::new([1u8; 32]))
            .transaction(cellbase.clone())
            .build();
        let genesis = mine(params.pow, genesis);
        let epoch_ext = build_genesis_epoch_ext(
            Capacity::shannons(1_917_808_21917808),
            compact,
            1000,
            4 * 3600,
            (1, 40),
        );
        let consensus = ConsensusBuilder::new(genesis.clone(), epoch_ext)
            .id("vsim".to_owned())
            .pow(match params.pow {
                PowKind::Dummy => Pow::Dummy,
                PowKind::Eaglesong => Pow::Eaglesong,
            })
            .build();

        let mut txs = HashMap::new();
        let mut tx_locs: HashMap<Byte32, Vec<(usize, u32)>> = HashMap::new();
        txs.insert(cellbase.hash(), cellbase.clone());
        tx_locs.entry(cellbase.hash()).or_default().push((0, 0));
        let (filter, missing) = build_filter_data(TxProvider(&txs), &genesis.transactions());
        assert!(missing.is_empty());
        let filter: packed::Bytes = filter.pack();
        let filter_hash: Byte32 = calc_filter_hash(&Byte32::zero(), &filter).pack();

        let mut live = Vec::new();
        for (i, out) in cellbase.outputs().into_iter().enumerate() {
            if i == 0 {
                continue; // never spend the code cell
            }
            live.push(LiveCell {
                out_point: OutPoint::new(cellbase.hash(), i as u32),
                output: out,
                data: Bytes::new(),
                number: 0,
                tx_index: 0,
            });
        }

        let store = MemStore::default();
        let mmr_size = {
            let mut mmr = ChainRootMMR::new(0, &store);
            mmr.push(genesis.digest()).expect("push genesis");
            let s = mmr.mmr_size();
            mmr.commit().expect("commit");
            s
        };
        let mut by_hash = HashMap::new();
        by_hash.insert(genesis.hash(), 0);
        let blocks = vec![WBlock {
            view: genesis,
            parent: None,
            td: diff,
            parent_root: Default::default(),
            filter,
            filter_hash,
        }];
        let branch = Branch {
            ids: vec![0],
            store,
            mmr_size,
            live,
            rng: rng.fork(0xb0),
            forged: false,
            orphans: Vec::new(),
            orphan_wait: 0,
        };
        World {
            params,
            blocks,
            by_hash,
            branches: vec![branch],
            consensus,
            locks,
            types,
            txs,
            tx_locs,
            always_success_dep,
            epoch_plan: HashMap::new(),
            forge_next: None,
            forge_epoch: None,
        }
    }

    /// Highest block that is an ancestor-or-self of both blocks (by arena id).
    pub fn common_ancestor(&self, a: usize, b: usize) -> usize {
        let (mut a, mut b) = (a, b);
        while self.blocks[a].number() > self.blocks[b].number() {
            a = self.blocks[a].parent.unwrap();
        }
        while self.blocks[b].number() > self.blocks[a].number() {
            b = self.blocks[b].parent.unwrap();
        }
        while a != b {
            a = self.blocks[a].parent.unwrap();
            b = self.blocks[b].parent.unwrap();
        }
        a
    }

    pub fn is_ancestor_or_self(&self, anc: usize, of: usize) -> bool {
        self.common_ancestor(anc, of) == anc
    }

    pub fn genesis(&self) -> &BlockView {
        &self.blocks[0].view
    }

    pub fn tip_number(&self, branch: usize) -> u64 {
        (self.branches[branch].ids.len() - 1) as u64
    }

    pub fn block(&self, branch: usize, number: u64) -> &WBlock {
        &self.blocks[self.branches[branch].ids[number as usize]]
    }

    pub fn block_opt(&self, branch: usize, number: u64) -> Option<&WBlock> {
        self.branches[branch]
            .ids
            .get(number as usize)
            .map(|id| &self.blocks[*id])
    }

    /// Number of the block with this hash if it is on `branch` at or below `max_number`.
    pub fn number_on_branch(&self, branch: usize, hash: &Byte32, max_number: u64) -> Option<u64> {
        let id = *self.by_hash.get(hash)?;
        let n = self.blocks[id].number();
        if n <= max_number && self.branches[branch].ids.get(n as usize) == Some(&id) {
            Some(n)
        } else {
            None
        }
    }

    /// MMR root over blocks 0..=number of the branch.
    pub fn root_at(&self, branch: usize, number: u64) -> packed::HeaderDigest {
        let b = &self.branches[branch];
        let mmr = ChainRootMMR::new(leaf_index_to_mmr_size(number), &b.store);
        mmr.get_root().expect("root")
    }

    /// Proof items for `numbers` against the chain root committed by block `last_number`.
    pub fn gen_proof(
        &self,
        branch: usize,
        last_number: u64,
        numbers: &[u64],
    ) -> Vec<packed::HeaderDigest> {
        if numbers.is_empty() || last_number == 0 {
            return Vec::new();
        }
        let b = &self.branches[branch];
        let mmr = ChainRootMMR::new(leaf_index_to_mmr_size(last_number - 1), &b.store);
        let positions = numbers.iter().map(|n| leaf_index_to_pos(*n)).collect();
        mmr.gen_proof(positions)
            .expect("gen proof")
            .proof_items()
            .to_vec()
    }

    /// Total difficulty of block `number` on the branch.
    pub fn td(&self, branch: usize, number: u64) -> U256 {
        self.block(branch, number).td.clone()
    }

    /// The lowest number at which two branches differ (== common length if one is a prefix).
    pub fn fork_point(&self, a: usize, b: usize) -> u64 {
        let ia = &self.branches[a].ids;
        let ib = &self.branches[b].ids;
        let mut n = 0;
        while n < ia.len() && n < ib.len() && ia[n] == ib[n] {
            n += 1;
        }
        n as u64
    }

    /// Creates a new branch sharing blocks 0..=at with `src`.
    pub fn fork(&mut self, src: usize, at: u64, tag: u64) -> usize {
        let ids: Vec<usize> = self.branches[src].ids[..=(at as usize)].to_vec();
        let store = MemStore::default();
        let mut size = 0;
        {
            let mut mmr = ChainRootMMR::new(0, &store);
            for id in &ids {
                mmr.push(self.blocks[*id].view.digest()).expect("push");
            }
            size = mmr.mmr_size();
            mmr.commit().expect("commit");
        }
        // replay the UTXO set
        let mut live: Vec<LiveCell> = Vec::new();
        for id in &ids {
            let blk = &self.blocks[*id];
            for (ti, tx) in blk.view.transactions().into_iter().enumerate() {
                if !tx.is_cellbase() {
                    for op in tx.input_pts_iter() {
                        live.retain(|c| c.out_point != op);
                    }
                }
                for (oi, out) in tx.outputs().into_iter().enumerate() {
                    if blk.number() == 0 && ti == 0 && oi == 0 {
                        continue;
                    }
                    live.push(LiveCell {
                        out_point: OutPoint::new(tx.hash(), oi as u32),
                        output: out,
                        data: tx.outputs_data().get(oi).unwrap().raw_data(),
                        number: blk.number(),
                        tx_index: ti as u32,
                    });
                }
            }
        }
        let mut orphans: Vec<TransactionView> = Vec::new();
        if self.params.recommit {
            for id in self.branches[src].ids[(at as usize + 1)..].iter() {
                orphans.extend(self.blocks[*id].view.transactions().into_iter().filter(|tx| !tx.is_cellbase()));
            }
            orphans.extend(self.branches[src].orphans.iter().cloned());
        }
        let rng = Rng::new(crate::entropy::mix(&[self.params.seed, 0xf0, tag, at]));
        self.branches.push(Branch {
            ids,
            store,
            mmr_size: size,
            live,
            rng,
            forged: false,
            orphan_wait: if self.params.recommit { crate::entropy::mix(&[self.params.seed, 0xf1, tag, at]) % 3 } else { 0 },
            orphans,
        });
        self.branches.len() - 1
    }

    /// Mines one block on top of the branch with the given timestamp. Returns its number.
    pub fn mine(&mut self, branch: usize, timestamp: u64) -> u64 {
        let parent_id = *self.branches[branch].ids.last().unwrap();
        let number = self.blocks[parent_id].number() + 1;
        let parent_header = self.blocks[parent_id].header();
        let parent_td = self.blocks[parent_id].td.clone();
        let parent_filter_hash = self.blocks[parent_id].filter_hash.clone();
        let params = self.params.clone();
        let mut rng = self.branches[branch].rng.clone();

        // --- epoch & difficulty
        let pe = parent_header.epoch();
        let (epoch, compact) = if self.branches[branch].forged {
            // after a forged block: no honest adjustment, just count on
            // exactly what EpochNumberWithFraction::is_successor_of accepts
            if pe.index() + 1 == pe.length() {
                (
                    EpochNumberWithFraction::new_unchecked(pe.number() + 1, 0, pe.length()),
                    parent_header.compact_target(),
                )
            } else {
                (
                    EpochNumberWithFraction::new_unchecked(pe.number(), pe.index() + 1, pe.length()),
                    parent_header.compact_target(),
                )
            }
        } else if number == 1 {
            let len = match self.epoch_plan.get(&0) {
                Some((l, _)) => *l,
                None => {
                    let l = rng.range(params.epoch_len.0.max(2), params.epoch_len.1.max(2));
                    self.epoch_plan.insert(0, (l, parent_header.compact_target()));
                    l
                }
            };
            (
                EpochNumberWithFraction::new(0, 1, len),
                parent_header.compact_target(),
            )
        } else if pe.index() + 1 == pe.length() && self.epoch_plan.contains_key(&(pe.number() + 1)) {
            let (len, c) = self.epoch_plan[&(pe.number() + 1)];
            (EpochNumberWithFraction::new(pe.number() + 1, 0, len), c)
        } else if pe.index() + 1 == pe.length() {
            // next epoch: epoch difficulty (= block difficulty * length) moves within tau
            let old_block_diff = compact_to_difficulty(parent_header.compact_target());
            let old_epoch_diff = &old_block_diff * pe.length();
            let new_len = rng.range(params.epoch_len.0.max(1), params.epoch_len.1.max(1));
            // factor in [1/1.9, 1.9] scaled by drift
            let f = if params.drift == 0 {
                1.0
            } else {
                let span = 0.9 * (params.drift.min(100) as f64) / 100.0;
                // keep block difficulties inside u64 (and minable for the real PoW engine)
                let cur_block = u256_to_u128(&old_block_diff);
                let ceiling: u128 = if params.pow == PowKind::Eaglesong { 1 << 13 } else { 1 << 56 };
                let up = if cur_block > ceiling {
                    false
                } else { match params.trend {
                    1 => true,
                    2 => false,
                    3 => ((pe.number() + 1) / 4) % 2 == 0,
                    _ => rng.chance(1, 2),
                } };
                let x = if params.trend == 0 {
                    1.0 + span * rng.f64()
                } else {
                    1.0 + span * (0.6 + 0.4 * rng.f64())
                };
                if up {
                    x
                } else {
                    1.0 / x
                }
            };
            let old_epoch_u128 = u256_to_u128(&old_epoch_diff);
            let target_epoch = ((old_epoch_u128 as f64) * f) as u128;
            let mut block_diff = (target_epoch / new_len as u128).max(2) as u64;
            // make sure the realised (compact-rounded) epoch difficulty stays within tau
            let mut tries = 0;
            let mut new_len = new_len;
            let (mut c, mut real) = real_difficulty(block_diff);
            loop {
                let new_epoch = &real * new_len;
                let hi = &old_epoch_diff * 2u64;
                let lo = &old_epoch_diff / 2u64 + 1u64;
                if new_epoch <= hi && new_epoch >= lo {
                    break;
                }
                tries += 1;
                if new_epoch > hi {
                    if block_diff <= 2 {
                        // cannot lower the difficulty any further: shorten the epoch instead
                        new_len = (new_len - 1).max(1);
                    } else {
                        block_diff = (block_diff - block_diff / 8).saturating_sub(1).max(2);
                    }
                } else {
                    block_diff = block_diff.saturating_add(block_diff / 8 + 1);
                }
                let r = real_difficulty(block_diff.max(2));
                c = r.0;
                real = r.1;
                assert!(tries < 2000, "cannot fit difficulty into tau");
            }
            self.epoch_plan.insert(pe.number() + 1, (new_len, c));
            (EpochNumberWithFraction::new(pe.number() + 1, 0, new_len), c)
        } else {
            (
                EpochNumberWithFraction::new(pe.number(), pe.index() + 1, pe.length()),
                parent_header.compact_target(),
            )
        };

        // --- transactions
        let mut block_txs: Vec<TransactionView> = Vec::new();
        let cb_lock = rng.pick(&self.locks).clone();
        let cellbase = TransactionBuilder::default()
            .input(CellInput::new_cellbase_input(number))
            .output(
                CellOutput::new_builder()
                    .capacity(Capacity::shannons(1_000_0000_0000 + rng.below(1000)).pack())
                    .lock(cb_lock)
                    .build(),
            )
            .output_data(Bytes::new().pack())
            .witness(Script::default().into_witness())
            .build();
        block_txs.push(cellbase);
        let ntx = if params.max_txs == 0 {
            0
        } else {
            rng.range(0, params.max_txs)
        };
        // candidate inputs: branch live set plus outputs created earlier in this block
        let mut pool: Vec<LiveCell> = self.branches[branch].live.clone();
        let mut spent: Vec<OutPoint> = Vec::new();
        let mut created: Vec<LiveCell> = Vec::new();
        // transactions of abandoned blocks come back, in order, as far as their inputs exist here
        if self.branches[branch].orphan_wait > 0 {
            self.branches[branch].orphan_wait -= 1;
        } else if !self.branches[branch].orphans.is_empty() && !rng.chance(1, 3) {
            let take = rng.range(1, 3) as usize;
            let mut rest: Vec<TransactionView> = Vec::new();
            let orphans = std::mem::take(&mut self.branches[branch].orphans);
            let mut taken = 0;
            for tx in orphans {
                let ins: Vec<OutPoint> = tx.input_pts_iter().collect();
                let ok = taken < take && ins.iter().all(|op| pool.iter().any(|c| c.out_point == *op));
                if !ok {
                    rest.push(tx);
                    continue;
                }
                taken += 1;
                pool.retain(|c| !ins.contains(&c.out_point));
                spent.extend(ins);
                let ti = block_txs.len() as u32;
                for (oi, out) in tx.outputs().into_iter().enumerate() {
                    let lc = LiveCell {
                        out_point: OutPoint::new(tx.hash(), oi as u32),
                        output: out,
                        data: tx.outputs_data().get(oi).unwrap().raw_data(),
                        number,
                        tx_index: ti,
                    };
                    pool.push(lc.clone());
                    created.push(lc);
                }
                block_txs.push(tx);
            }
            // what can never be re-committed (an input was spent otherwise) stays out for good
            self.branches[branch].orphans = rest;
        }
        if !self.branches[branch].orphans.is_empty() {
            // fresh transactions leave the cells alone that the waiting ones are going to spend
            let reserved: Vec<OutPoint> =
                self.branches[branch].orphans.iter().flat_map(|tx| tx.input_pts_iter()).collect();
            pool.retain(|c| !reserved.contains(&c.out_point));
        }
        for _ in 0..ntx {
            if pool.is_empty() {
                break;
            }
            let n_in = rng.range(1, 2.min(pool.len() as u64)) as usize;
            let mut inputs = Vec::new();
            let mut in_cap: u64 = 0;
            for _ in 0..n_in {
                // bias towards recently created cells (incl. same block)
                let idx = if rng.chance(1, 2) {
                    pool.len() - 1 - rng.usize_below(pool.len().min(4))
                } else {
                    rng.usize_below(pool.len())
                };
                let c = pool.remove(idx);
                in_cap += Unpack::<Capacity>::unpack(&c.output.capacity()).as_u64();
                inputs.push(c);
            }
            let n_out = rng.range(1, 3);
            let mut outs = Vec::new();
            let mut datas: Vec<Bytes> = Vec::new();
            let fee = 1000;
            let each = (in_cap - fee) / n_out;
            for _ in 0..n_out {
                let lock = rng.pick(&self.locks).clone();
                let type_ = if !self.types.is_empty() && rng.chance(1, 3) {
                    Some(rng.pick(&self.types).clone())
                } else {
                    None
                };
                let dlen = if rng.chance(1, 3) { rng.range(1, 6) } else { 0 };
                let mut d = vec![0u8; dlen as usize];
                rng.fill(&mut d);
                outs.push(
                    CellOutput::new_builder()
                        .capacity(Capacity::shannons(each).pack())
                        .lock(lock)
                        .type_(type_.pack())
                        .build(),
                );
                datas.push(Bytes::from(d));
            }
            let tx = TransactionBuilder::default()
                .cell_dep(self.always_success_dep.clone())
                .inputs(
                    inputs
                        .iter()
                        .map(|c| CellInput::new(c.out_point.clone(), 0)),
                )
                .outputs(outs.clone())
                .outputs_data(datas.iter().map(|d| d.pack()))
                .witness(Bytes::from(vec![rng.below(256) as u8]).pack())
                .build();
            let ti = block_txs.len() as u32;
            for c in &inputs {
                spent.push(c.out_point.clone());
            }
            for (oi, out) in outs.into_iter().enumerate() {
                let lc = LiveCell {
                    out_point: OutPoint::new(tx.hash(), oi as u32),
                    output: out,
                    data: datas[oi].clone(),
                    number,
                    tx_index: ti,
                };
                pool.push(lc.clone());
                created.push(lc);
            }
            block_txs.push(tx);
        }
        // cellbase output is live too
        {
            let cb = &block_txs[0];
            created.push(LiveCell {
                out_point: OutPoint::new(cb.hash(), 0),
                output: cb.outputs().get(0).unwrap(),
                data: Bytes::new(),
                number,
                tx_index: 0,
            });
        }

        // --- header
        let parent_root = self.root_at(branch, number - 1);
        let mut ext = parent_root.calc_mmr_hash().as_slice().to_vec();
        if rng.chance(params.ext_extra_pct, 100) {
            let n = rng.range(1, 40) as usize;
            let mut extra = vec![0u8; n];
            rng.fill(&mut extra);
            ext.extend_from_slice(&extra);
        }
        let ext: packed::Bytes = Bytes::from(ext).pack();
        let mut dao = [0u8; 32];
        rng.fill(&mut dao);
        let block = BlockBuilder::default()
            .parent_hash(parent_header.hash())
            .number(number.pack())
            .epoch(
                if epoch.is_well_formed() {
                    epoch.pack()
                } else {
                    // the builder insists on a well-formed epoch; the real one is patched in below
                    EpochNumberWithFraction::new_unchecked(epoch.number(), 0, 1).pack()
                },
            )
            .compact_target(compact.pack())
            .timestamp(timestamp.pack())
            .dao(Byte32::new(dao))
            .transactions(block_txs.clone())
            .extension(Some(ext))
            .build();
        let mut block = mine(params.pow, block);
        if !epoch.is_well_formed() {
            let data = block.data();
            let raw = data.header().raw().as_builder().epoch(epoch.pack()).build();
            let header = data.header().as_builder().raw(raw).build();
            block = data.as_builder().header(header).build().into_view();
        }
        let mut compact = compact;
        if let Some((fb, kind, salt)) = self.forge_epoch {
            if fb == branch && epoch.index() == 0 && number > 1 && !self.branches[branch].forged {
                self.forge_epoch = None;
                self.branches[branch].forged = true;
                let mut fr = Rng::new(crate::entropy::mix(&[salt, number, 0xf1]));
                let el: u64 = match kind % 4 {
                    0 => 0,
                    1 => 1,
                    2 => 0xffff,
                    _ => fr.range(1, 3),
                };
                let raw_epoch: u64 = ((el & 0xffff) << 40) | (epoch.number() & 0xff_ffff);
                let data = block.data();
                let raw = data.header().raw().as_builder().epoch(raw_epoch.pack()).build();
                let header = data.header().as_builder().raw(raw).build();
                block = data.as_builder().header(header).build().into_view();
            }
        }
        if let Some((kind, salt)) = self.forge_next.take() {
            self.branches[branch].forged = true;
            let mut fr = Rng::new(crate::entropy::mix(&[salt, number, 0xf0]));
            let (mut en, mut ei, mut el) = (epoch.number(), epoch.index(), epoch.length());
            // only what the MMR merge of header digests lets through (it checks that block
            // numbers and (epoch number, index) are consecutive, nothing else)
            match kind % 3 {
                0 => {
                    // another compact target in the middle of an epoch
                    let d = compact_to_difficulty(compact);
                    compact = difficulty_to_compact(if fr.chance(1, 2) { d * 64u64 } else { d / 64u64 + 1u64 });
                }
                1 => compact = difficulty_to_compact(U256::one() << (120 + fr.below(100)) as u8),
                _ => compact = *fr.pick(&[1u32, 0x0100_0001, 0x2100_ffff, 0xff00_0001]),
            }
            let _ = (&mut en, &mut ei, &mut el);
            // full value: length (16 bits) | index (16 bits) | number (24 bits)
            let raw_epoch: u64 = ((el & 0xffff) << 40) | ((ei & 0xffff) << 24) | (en & 0xff_ffff);
            let data = block.data();
            let raw = data
                .header()
                .raw()
                .as_builder()
                .epoch(raw_epoch.pack())
                .compact_target(compact.pack())
                .build();
            let header = data.header().as_builder().raw(raw).build();
            block = data.as_builder().header(header).build().into_view();
        }

        // --- commit to the world
        for (ti, tx) in block_txs.iter().enumerate() {
            self.txs.insert(tx.hash(), tx.clone());
            self.tx_locs
                .entry(tx.hash())
                .or_default()
                .push((self.blocks.len(), ti as u32));
        }
        let (filter, missing) = build_filter_data(TxProvider(&self.txs), &block.transactions());
        assert!(missing.is_empty(), "generated block misses an input cell");
        let filter: packed::Bytes = filter.pack();
        let filter_hash: Byte32 = calc_filter_hash(&parent_filter_hash, &filter).pack();
        let td = parent_td
            .checked_add(&compact_to_difficulty(compact))
            .unwrap_or_else(|| U256::max_value());

        let id = self.blocks.len();
        self.by_hash.insert(block.hash(), id);
        let digest = block.digest();
        self.blocks.push(WBlock {
            view: block,
            parent: Some(parent_id),
            td,
            parent_root,
            filter,
            filter_hash,
        });
        let b = &mut self.branches[branch];
        b.ids.push(id);
        {
            let mut mmr = ChainRootMMR::new(b.mmr_size, &b.store);
            mmr.push(digest).expect("mmr push");
            b.mmr_size = mmr.mmr_size();
            mmr.commit().expect("mmr commit");
        }
        b.live.retain(|c| !spent.contains(&c.out_point));
        for c in created {
            if !spent.contains(&c.out_point) {
                b.live.push(c);
            }
        }
        b.rng = rng;
        number
    }

    /// Mines `n` blocks whose timestamps end at `now` (spaced `gap_ms` apart).
    pub fn mine_many(&mut self, branch: usize, n: u64, now: u64, gap_ms: u64) {
        for i in 0..n {
            let ts = now - (n - 1 - i) * gap_ms;
            self.mine(branch, ts);
        }
    }
}

pub fn u256_to_u128(v: &U256) -> u128 {
    let bytes = v.to_le_bytes();
    let mut b = [0u8; 16];
    b.copy_from_slice(&bytes[..16]);
    u128::from_le_bytes(b)
}

//! The client under test: the real storage, protocol handlers and RPC implementations,
//! wired together the way `RunConfig::execute` does, minus the real transport and HTTP.

use std::any::Any;
use std::future::Future;
use std::panic::{catch_unwind, AssertUnwindSafe};
use std::path::{Path, PathBuf};
use std::pin::Pin;
use std::sync::{Arc, RwLock};
use std::task::{Context, Poll, RawWaker, RawWakerVTable, Waker};
use std::time::{Duration, Instant};

use ckb_chain_spec::consensus::Consensus;
use ckb_network::{bytes::Bytes, CKBProtocolContext, CKBProtocolHandler, PeerIndex, SupportProtocols};
use jsonrpc_core::IoHandler;

use crate::net::{NetShared, SimContext};
use crate::protocols::{
    FilterProtocol, LightClientProtocol, Peers, PendingTxs, RelayProtocol, SyncProtocol,
};
use crate::service::{
    BlockFilterRpc, BlockFilterRpcImpl, ChainRpc, ChainRpcImpl, TransactionRpc, TransactionRpcImpl,
};
use crate::storage::{Storage, StorageWithChainData};

#[derive(Clone, Debug, PartialEq, serde::Serialize, serde::Deserialize)]
pub struct Knobs {
    pub last_n: u64,
    pub check_point_interval: u64,
    pub max_outbound: u32,
    pub blocks_in_transit: usize,
    pub mmr_activated_epoch: u64,
}

impl Default for Knobs {
    fn default() -> Self {
        Knobs {
            last_n: 100,
            check_point_interval: 2000,
            max_outbound: 1,
            blocks_in_transit: 16,
            mmr_activated_epoch: 0,
        }
    }
}

#[derive(Clone, Copy, Debug, PartialEq, Eq, Hash, PartialOrd, Ord)]
pub enum Proto {
    LightClient,
    Filter,
    Sync,
    RelayV2,
    RelayV3,
}

impl Proto {
    pub fn support(self) -> SupportProtocols {
        match self {
            Proto::LightClient => SupportProtocols::LightClient,
            Proto::Filter => SupportProtocols::Filter,
            Proto::Sync => SupportProtocols::Sync,
            Proto::RelayV2 => SupportProtocols::RelayV2,
            Proto::RelayV3 => SupportProtocols::RelayV3,
        }
    }
    pub fn from_id(id: ckb_network::ProtocolId) -> Option<Proto> {
        for p in [
            Proto::LightClient,
            Proto::Filter,
            Proto::Sync,
            Proto::RelayV2,
            Proto::RelayV3,
        ] {
            if p.support().protocol_id() == id {
                return Some(p);
            }
        }
        None
    }
    pub fn name(self) -> &'static str {
        match self {
            Proto::LightClient => "lc",
            Proto::Filter => "filter",
            Proto::Sync => "sync",
            Proto::RelayV2 => "relay2",
            Proto::RelayV3 => "relay3",
        }
    }
}

/// What came out of a handler / RPC call that did not return normally.
#[derive(Clone, Debug)]
pub struct Unwind {
    pub message: String,
    pub location: String,
}

thread_local! {
    static LAST_PANIC: std::cell::RefCell<Option<(String, String)>> = std::cell::RefCell::new(None);
}

/// Installs a quiet panic hook that remembers message and location per thread.
pub fn install_panic_hook(verbose: bool) {
    std::panic::set_hook(Box::new(move |info| {
        let msg = if let Some(s) = info.payload().downcast_ref::<&str>() {
            s.to_string()
        } else if let Some(s) = info.payload().downcast_ref::<String>() {
            s.clone()
        } else {
            "<non-string panic payload>".to_string()
        };
        let loc = info
            .location()
            .map(|l| format!("{}:{}", l.file(), l.line()))
            .unwrap_or_default();
        if verbose {
            eprintln!("[panic] {} @ {}", msg, loc);
        }
        let _ = LAST_PANIC.try_with(|p| *p.borrow_mut() = Some((msg, loc)));
    }));
}

pub fn take_last_panic() -> Option<(String, String)> {
    LAST_PANIC.with(|p| p.borrow_mut().take())
}

fn noop_waker() -> Waker {
    fn clone(_: *const ()) -> RawWaker {
        RawWaker::new(std::ptr::null(), &VTABLE)
    }
    fn noop(_: *const ()) {}
    static VTABLE: RawWakerVTable = RawWakerVTable::new(clone, noop, noop, noop);
    unsafe { Waker::from_raw(RawWaker::new(std::ptr::null(), &VTABLE)) }
}

/// Polls a handler future exactly once; the handlers never really await.
pub fn run_once<F: Future>(fut: F) -> F::Output {
    let waker = noop_waker();
    let mut cx = Context::from_waker(&waker);
    let mut fut = Box::pin(fut);
    match fut.as_mut().poll(&mut cx) {
        Poll::Ready(v) => v,
        Poll::Pending => panic!("HARNESS: handler future returned Pending"),
    }
}

pub fn guarded<R>(f: impl FnOnce() -> R) -> Result<R, Unwind> {
    let _ = take_last_panic();
    match catch_unwind(AssertUnwindSafe(f)) {
        Ok(v) => Ok(v),
        Err(payload) => {
            let (message, location) = take_last_panic().unwrap_or_else(|| {
                let m = payload_to_string(&payload);
                (m, String::new())
            });
            Err(Unwind { message, location })
        }
    }
}

fn payload_to_string(p: &Box<dyn Any + Send>) -> String {
    if let Some(s) = p.downcast_ref::<&str>() {
        s.to_string()
    } else if let Some(s) = p.downcast_ref::<String>() {
        s.clone()
    } else {
        "<non-string panic payload>".into()
    }
}

pub(crate) struct Client {
    pub dir: PathBuf,
    pub knobs: Knobs,
    pub storage: Storage,
    pub peers: Arc<Peers>,
    pub pending_txs: Arc<RwLock<PendingTxs>>,
    pub lc: LightClientProtocol,
    pub filter: FilterProtocol,
    pub(crate) sync: SyncProtocol,
    pub(crate) relay_v2: RelayProtocol,
    pub(crate) relay_v3: RelayProtocol,
    pub io: IoHandler,
    pub swc: StorageWithChainData,
    pub net: Arc<NetShared>,
    /// virtual time (ms) at which FilterProtocol.last_ask_time was last set by the client
    filter_ask_virtual: Option<u64>,
    filter_ask_seen: Option<Instant>,
}

impl Client {
    /// Mirrors `RunConfig::execute`.
    pub fn boot(
        dir: &Path,
        consensus: &Consensus,
        knobs: &Knobs,
        net: Arc<NetShared>,
    ) -> Result<Client, Unwind> {
        guarded(|| {
            let storage = Storage::new(dir);
            storage.init_genesis_block(consensus.genesis_block().data());
            let pending_txs = Arc::new(RwLock::new(PendingTxs::default()));
            let peers = Arc::new(Peers::new(
                knobs.max_outbound,
                knobs.check_point_interval,
                storage.get_last_check_point(),
            ));
            let sync = SyncProtocol::new(storage.clone(), Arc::clone(&peers));
            let relay_v2 = RelayProtocol::new(
                pending_txs.clone(),
                Arc::clone(&peers),
                consensus.clone(),
                storage.clone(),
                false,
            );
            let relay_v3 = RelayProtocol::new(
                pending_txs.clone(),
                Arc::clone(&peers),
                consensus.clone(),
                storage.clone(),
                true,
            );
            let mut lc =
                LightClientProtocol::new(storage.clone(), Arc::clone(&peers), consensus.clone());
            lc.verif_set_knobs(
                knobs.last_n,
                knobs.mmr_activated_epoch,
                knobs.blocks_in_transit,
            );
            let filter = FilterProtocol::new(storage.clone(), Arc::clone(&peers));

            let swc = StorageWithChainData::new(
                storage.clone(),
                Arc::clone(&peers),
                Arc::clone(&pending_txs),
            );
            let consensus = Arc::new(consensus.clone());
            let mut io = IoHandler::new();
            io.extend_with(BlockFilterRpcImpl { swc: swc.clone() }.to_delegate());
            io.extend_with(
                ChainRpcImpl {
                    swc: swc.clone(),
                    consensus: Arc::clone(&consensus),
                }
                .to_delegate(),
            );
            io.extend_with(
                TransactionRpcImpl {
                    swc: swc.clone(),
                    consensus,
                }
                .to_delegate(),
            );
            Client {
                dir: dir.to_path_buf(),
                knobs: knobs.clone(),
                storage,
                peers,
                pending_txs,
                lc,
                filter,
                sync,
                relay_v2,
                relay_v3,
                io,
                swc,
                net,
                filter_ask_virtual: None,
                filter_ask_seen: None,
            }
        })
    }

    /// A second handler instance for `proto` that shares the store and the peers with the
    /// first one, as the protocol tasks of the real process share them (C17: two protocol
    /// handlers running at the same time). The light-client and sync handlers hold nothing
    /// else; the filter handler's own `last_ask_time` is not shared.
    pub fn twin(&self, proto: Proto, consensus: &Consensus) -> Option<Box<dyn CKBProtocolHandler + Send>> {
        match proto {
            Proto::LightClient => {
                let mut lc = LightClientProtocol::new(self.storage.clone(), Arc::clone(&self.peers), consensus.clone());
                lc.verif_set_knobs(self.knobs.last_n, self.knobs.mmr_activated_epoch, self.knobs.blocks_in_transit);
                Some(Box::new(lc))
            }
            Proto::Filter => Some(Box::new(FilterProtocol::new(self.storage.clone(), Arc::clone(&self.peers)))),
            Proto::Sync => Some(Box::new(SyncProtocol::new(self.storage.clone(), Arc::clone(&self.peers)))),
            _ => None,
        }
    }

    pub fn ctx_for(&self, proto: Proto) -> Arc<dyn CKBProtocolContext + Sync> {
        self.ctx(proto)
    }

    fn ctx(&self, proto: Proto) -> Arc<dyn CKBProtocolContext + Sync> {
        SimContext::new(proto.support(), Arc::clone(&self.net))
    }

    fn handler(&mut self, proto: Proto) -> &mut dyn CKBProtocolHandler {
        match proto {
            Proto::LightClient => &mut self.lc,
            Proto::Filter => &mut self.filter,
            Proto::Sync => &mut self.sync,
            Proto::RelayV2 => &mut self.relay_v2,
            Proto::RelayV3 => &mut self.relay_v3,
        }
    }

    fn filter_ask_now(&self) -> Option<Instant> {
        *self
            .filter
            .last_ask_time
            .read()
            .unwrap_or_else(|e| e.into_inner())
    }

    /// `Instant` seam of FilterProtocol.last_ask_time (see DESIGN §1).
    fn before_filter_call(&mut self, now_ms: u64) {
        if let (Some(_), Some(set_at)) = (self.filter_ask_now(), self.filter_ask_virtual) {
            let fresh = now_ms.saturating_sub(set_at) <= 15_000;
            let v = if fresh {
                Instant::now()
            } else {
                Instant::now()
                    .checked_sub(Duration::from_secs(16))
                    .expect("uptime > 16s")
            };
            *self
                .filter
                .last_ask_time
                .write()
                .unwrap_or_else(|e| e.into_inner()) = Some(v);
            self.filter_ask_seen = Some(v);
        }
    }

    fn after_filter_call(&mut self, now_ms: u64) {
        let cur = self.filter_ask_now();
        if cur != self.filter_ask_seen {
            self.filter_ask_seen = cur;
            self.filter_ask_virtual = cur.map(|_| now_ms);
        }
    }

    pub fn init(&mut self, proto: Proto) -> Result<(), Unwind> {
        let nc = self.ctx(proto);
        let h = self.handler(proto);
        guarded(|| run_once(h.init(nc)))
    }

    pub fn connected(&mut self, proto: Proto, peer: PeerIndex, now_ms: u64) -> Result<(), Unwind> {
        let nc = self.ctx(proto);
        if proto == Proto::Filter {
            self.before_filter_call(now_ms);
        }
        let h = self.handler(proto);
        let r = guarded(|| run_once(h.connected(nc, peer, "3")));
        if proto == Proto::Filter {
            self.after_filter_call(now_ms);
        }
        r
    }

    pub fn disconnected(&mut self, proto: Proto, peer: PeerIndex, now_ms: u64) -> Result<(), Unwind> {
        let nc = self.ctx(proto);
        if proto == Proto::Filter {
            self.before_filter_call(now_ms);
        }
        let h = self.handler(proto);
        let r = guarded(|| run_once(h.disconnected(nc, peer)));
        if proto == Proto::Filter {
            self.after_filter_call(now_ms);
        }
        r
    }

    pub fn received(
        &mut self,
        proto: Proto,
        peer: PeerIndex,
        data: Bytes,
        now_ms: u64,
    ) -> Result<(), Unwind> {
        let nc = self.ctx(proto);
        if proto == Proto::Filter {
            self.before_filter_call(now_ms);
        }
        let h = self.handler(proto);
        let r = guarded(|| run_once(h.received(nc, peer, data)));
        // BlockFilters processing sets last_ask_time; SendBlock does not, but keep it uniform.
        self.after_filter_call(now_ms);
        r
    }

    pub fn notify(&mut self, proto: Proto, token: u64, now_ms: u64) -> Result<(), Unwind> {
        let nc = self.ctx(proto);
        if proto == Proto::Filter {
            self.before_filter_call(now_ms);
        }
        let h = self.handler(proto);
        let r = guarded(|| run_once(h.notify(nc, token)));
        self.after_filter_call(now_ms);
        r
    }

    /// One JSON-RPC call through the real delegates. Returns `result` or `error` value.
    pub fn rpc(
        &mut self,
        method: &str,
        params: serde_json::Value,
    ) -> Result<Result<serde_json::Value, serde_json::Value>, Unwind> {
        let req = serde_json::json!({"jsonrpc": "2.0", "id": 1, "method": method, "params": params})
            .to_string();
        let io = &self.io;
        let resp = guarded(|| io.handle_request_sync(&req))?;
        let resp = resp.unwrap_or_default();
        let v: serde_json::Value = serde_json::from_str(&resp).unwrap_or(serde_json::Value::Null);
        if let Some(r) = v.get("result") {
            Ok(Ok(r.clone()))
        } else {
            Ok(Err(v.get("error").cloned().unwrap_or(serde_json::Value::Null)))
        }
    }
}

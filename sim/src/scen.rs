//! Scenario generators: one seed -> one explicit plan, per property (swarm style: sizes,
//! knobs, workload mix and the enabled fault kinds are all drawn per run).

use crate::chain::{ChainParams, PowKind};
use crate::client::Knobs;
use crate::entropy::{hash_str, mix, Rng};
use crate::plan::*;

/// C17 case index -> (history, boundary slot, paired operation)
pub fn pair_case(i: u64) -> (u64, u64, u64) {
    let op = i % 13;
    let j = i / 13;
    let hist = j % 24 + 24 * (j / (24 * 40));
    let slot = (j / 24) % 40;
    (hist, slot, op)
}

/// The plan of run `i` of property `prop` under master seed `master`.
pub fn plan_for(master: u64, prop: &str, i: u64) -> Plan {
    if prop == "C17" {
        // four two-thread cases, one three-thread case with a fixed nesting, one randomized
        // multi-thread run (three or four threads under a seeded scheduler)
        let (t, r) = (i / 6, i % 6);
        if r == 5 {
            let (hist, slot, op) = pair_case(mix(&[t, 0x5a]) % 12_480);
            let mut op2 = mix(&[t, 0x5b]) % 13;
            if op2 == op {
                op2 = (op2 + 1) % 13;
            }
            let mut p = gen(prop, run_seed(master, prop, hist));
            p.flags.push(format!("pair_slot={}", slot));
            p.flags.push(format!("pair_op={}", op));
            p.flags.push(format!("pair_op2={}", op2));
            p.flags.push(format!("pair_rand={}", mix(&[t, 0x5c]) % 1_000_000));
            if mix(&[t, 0x5d]) % 2 == 0 {
                p.flags.push(format!("pair_op3={}", mix(&[t, 0x5e]) % 4));
            }
            p
        } else if r < 4 {
            let (hist, slot, op) = pair_case(4 * t + r);
            let mut p = gen(prop, run_seed(master, prop, hist));
            p.flags.push(format!("pair_slot={}", slot));
            p.flags.push(format!("pair_op={}", op));
            p
        } else {
            let (hist, slot, op) = pair_case(mix(&[t, 0x3a]) % 12_480);
            let mut op2 = mix(&[t, 0x3b]) % 13;
            if op2 == op {
                op2 = (op2 + 1) % 13;
            }
            let mut p = gen(prop, run_seed(master, prop, hist));
            p.flags.push(format!("pair_slot={}", slot));
            p.flags.push(format!("pair_op={}", op));
            p.flags.push(format!("pair_op2={}", op2));
            p
        }
    } else {
        gen(prop, run_seed(master, prop, i))
    }
}

pub fn run_seed(master: u64, prop: &str, i: u64) -> u64 {
    mix(&[master, hash_str(prop), i])
}

fn pick<T: Clone>(rng: &mut Rng, xs: &[T]) -> T {
    xs[rng.usize_below(xs.len())].clone()
}

pub struct Base {
    pub plan: Plan,
    pub rng: Rng,
}

/// Knobs, world and protocol-following peers; no actions yet.
pub fn base(prop: &str, seed: u64, max_blocks: u64, max_peers: u64) -> Base {
    let mut rng = Rng::new(seed);
    let n_peers = rng.range(1, max_peers.max(1)) as usize;
    let last_n = pick(&mut rng, &[1u64, 2, 3, 5, 10, 10, 100]);
    let interval = pick(&mut rng, &[4u64, 8, 16, 16, 2000]);
    let max_outbound = rng.range(1, (2 * n_peers as u64 - 1).max(1)) as u32;
    let knobs = Knobs {
        last_n,
        check_point_interval: interval,
        max_outbound,
        blocks_in_transit: pick(&mut rng, &[1usize, 2, 16]),
        mmr_activated_epoch: 0,
    };
    let pow = if rng.chance(1, 6) {
        PowKind::Eaglesong
    } else {
        PowKind::Dummy
    };
    let base_difficulty = match pow {
        PowKind::Eaglesong => rng.range(4, 64),
        PowKind::Dummy => pick(&mut rng, &[1_000u64, 50_000, 4_000_000_000, 900_000_000_000]),
    };
    let e_lo = rng.range(2, 12);
    let chain = ChainParams {
        seed: rng.next_u64(),
        pow,
        base_difficulty,
        epoch_len: (e_lo, e_lo + rng.range(0, 30)),
        drift: pick(&mut rng, &[0u64, 30, 100, 100]),
        max_txs: rng.range(0, 4),
        n_locks: rng.range(2, 6) as usize,
        n_types: rng.range(0, 2) as usize,
        ext_extra_pct: pick(&mut rng, &[0u64, 20, 100]),
        trend: pick(&mut rng, &[0u64, 0, 0, 1, 2, 3]),
        recommit: false,
    };
    let blocks_cap = if pow == PowKind::Eaglesong {
        max_blocks.min(120)
    } else {
        max_blocks
    };
    let initial_blocks = match rng.below(10) {
        0 => rng.range(1, 3),
        1..=3 => rng.range(2, 40.min(blocks_cap)),
        _ => rng.range(2, blocks_cap.max(2)),
    };
    let mut peers = Vec::new();
    for i in 0..n_peers {
        peers.push(PeerPlan {
            identity: 100 + i as u64,
            branch: 0,
            lag: if rng.chance(1, 4) { rng.range(1, 6) } else { 0 },
            latency: rng.range(5, 400),
            jitter: rng.range(0, 200),
            filters_batch: pick(&mut rng, &[1u64, 2, 3, 7, 50, 1000]),
            hashes_batch: pick(&mut rng, &[2u64, 5, 33, 2000]),
            check_points_batch: pick(&mut rng, &[2u64, 3, 2000]),
            v1: rng.chance(1, 2),
            mutations: Vec::new(),
            lie_from: 0,
            lie_salt: 0,
            lie_span: 0,
        });
    }
    let plan = Plan {
        property: prop.to_string(),
        seed,
        knobs,
        chain,
        initial_blocks,
        peers,
        actions: Vec::new(),
        max_time: 0,
        max_events: 40_000,
        quiet_from: 0,
        trace_logging: rng.chance(1, 5),
        flags: Vec::new(),
    };
    Base { plan, rng }
}

fn add(plan: &mut Plan, at: u64, action: Action) {
    plan.actions.push(Timed { at, action });
}

fn connect_all(b: &mut Base, spread: u64) {
    for p in 0..b.plan.peers.len() {
        let at = b.rng.range(0, spread);
        add(&mut b.plan, at, Action::Connect { peer: p });
    }
}

fn random_scripts(b: &mut Base, max: u64, tip_hint: u64) -> Vec<(ScriptRef, u64)> {
    let n = b.rng.range(1, max);
    let mut v = Vec::new();
    for _ in 0..n {
        let r = if b.plan.chain.n_types > 0 && b.rng.chance(1, 4) {
            ScriptRef::Type(b.rng.usize_below(b.plan.chain.n_types))
        } else {
            ScriptRef::Lock(b.rng.usize_below(b.plan.chain.n_locks))
        };
        let start = match b.rng.below(6) {
            0 | 1 => 0,
            2 => tip_hint + b.rng.range(0, 5),
            _ => b.rng.range(0, tip_hint.max(1)),
        };
        v.push((r, start));
    }
    v
}

fn finish(mut b: Base, quiet_from: u64, tail: u64) -> Plan {
    b.plan.quiet_from = quiet_from;
    // every block may cost three round trips (filters, proof, body) with batch size 1
    let rtt = b.plan.peers.iter().map(|p| 2 * (p.latency + p.jitter)).max().unwrap_or(100);
    // ... and every check-point interval costs a hashes round (10 s timer) plus the 15 s re-ask rule
    let intervals = (b.plan.initial_blocks + 60) / b.plan.knobs.check_point_interval.max(1) + 1;
    let work = (b.plan.initial_blocks + 60) * 4 * rtt + intervals.min(200) * 30_000;
    b.plan.max_time = quiet_from + tail + work;
    // The world never stops: after the faults stopped a block arrives every 20..50 s on the
    // main chain (an unchanged last state for 60 s makes the client drop the peer by design).
    let main = b.plan.flags.iter().find_map(|f| f.strip_prefix("main=").and_then(|v| v.parse::<usize>().ok())).unwrap_or(0);
    for p in 0..b.plan.peers.len() {
        if b.plan.peers[p].lag > 0 {
            add(&mut b.plan, quiet_from, Action::SetLag { peer: p, lag: 0 });
        }
    }
    let mut t = quiet_from + b.rng.range(1_000, 20_000);
    while t < b.plan.max_time {
        add(&mut b.plan, t, Action::Mine { branch: main, n: 1 });
        t += b.rng.range(20_000, 50_000);
    }
    b.plan.actions.sort_by_key(|t| t.at);
    b.plan
}

/// Honest-only world: growth, lagging peers, stalls, disconnects, restarts, shallow forks.
fn honest_faults(b: &mut Base, until: u64, allow_restart: bool, allow_forks: bool) {
    let n_faults = b.rng.range(0, 6);
    let np = b.plan.peers.len();
    for _ in 0..n_faults {
        let at = b.rng.range(1_000, until);
        let peer = b.rng.usize_below(np);
        match b.rng.below(8) {
            0 => add(&mut b.plan, at, Action::Stall { peer, ms: b.rng.range(500, 90_000) }),
            1 => add(&mut b.plan, at, Action::LoseAnswers { peer, n: b.rng.range(1, 2) }),
            2 => {
                add(&mut b.plan, at, Action::Disconnect { peer });
                let back = at + b.rng.range(500, 20_000);
                add(&mut b.plan, back, Action::Connect { peer });
            }
            3 if allow_restart => add(&mut b.plan, at, Action::Restart),
            4 => {
                if b.rng.chance(1, 2) {
                    add(&mut b.plan, at, Action::ClockJump { ms: b.rng.range(1_000, 70_000) });
                } else {
                    // the wall clock is stepped (NTP correction, operator): a little backwards or
                    // up to two hours forwards
                    let ms: i64 = if b.rng.chance(1, 2) {
                        -(b.rng.range(500, 20_000) as i64)
                    } else {
                        *b.rng.pick(&[1_000i64, 30_000, 61_000, 600_000, 7_200_000])
                    };
                    add(&mut b.plan, at, Action::ClockSkew { ms });
                }
            }
            5 if allow_forks => {
                // a shallow fork that becomes the heavier chain; everybody follows it
                let back = b.rng.range(1, b.plan.knobs.last_n.min(6));
                let n = back + b.rng.range(1, 3);
                add(&mut b.plan, at, Action::Fork { src: 0, back, n });
            }
            _ => add(&mut b.plan, at, Action::Mine { branch: 0, n: b.rng.range(1, 3) }),
        }
    }
}

fn growth(b: &mut Base, until: u64) {
    // the chain keeps growing while the client syncs
    let mut t = b.rng.range(2_000, 30_000);
    let slow = b.rng.chance(1, 4);
    while t < until {
        add(&mut b.plan, t, Action::Mine { branch: 0, n: b.rng.range(1, 2) });
        if b.rng.chance(1, 4) {
            // two announcements in quick succession (the first one is not proven yet)
            let n = b.rng.range(2, 3);
            let dt = b.rng.range(200, 4_000);
            add(&mut b.plan, t + dt, Action::Mine { branch: 0, n });
            add(&mut b.plan, t + dt + b.rng.range(100, 3_000), Action::Mine { branch: 0, n: 1 });
        }
        t += if slow { b.rng.range(20_000, 45_000) } else { b.rng.range(4_000, 40_000) };
    }
}

pub fn gen(prop: &str, seed: u64) -> Plan {
    match prop {
        "C05" => gen_c05(seed),
        "C03" => gen_c03(seed),
        "C15" => gen_c05_like(seed, "C15"),
        "C04" => gen_c04(seed),
        "C09" => gen_c09(seed),
        "C08" => gen_c08(seed),
        "C10" => gen_c10(seed),
        "C07" => gen_c07(seed),
        "C16" => gen_c16(seed),
        "C11" => gen_c11(seed),
        "C18" => gen_c18(seed),
        "C17" => {
            // histories with scripts, matched blocks, set_scripts during sync and reorgs
            let mut p = if seed % 3 == 0 {
                gen("C04", seed)
            } else if seed % 6 == 1 {
                // a reorg the client notices: the proof commit rolls back under the lock
                let mut p = gen_c08_with(seed, true);
                p.flags.retain(|f| f != "crash");
                p
            } else {
                gen("C09", seed)
            };
            p.property = "C17".into();
            // clean restarts while sync is under way: afterwards a stored matched-blocks record is
            // not in memory until the filter timer recovers it (or something discards it)
            // (not in the histories built around a reorg the client notices: a restart in front
            // of it would leave nothing to roll back)
            if mix(&[seed, 0xc17f]) % 2 == 0 && seed % 6 != 1 {
                let span = p.actions.iter().map(|a| a.at).max().unwrap_or(60_000).max(20_000);
                for j in 0..(1 + mix(&[seed, 0xc180]) % 3) {
                    let at = 4_000 + mix(&[seed, 0xc181, j]) % (span * 2 / 3);
                    p.actions.push(Timed { at, action: Action::Restart });
                }
                p.actions.sort_by_key(|a| a.at);
            }
            p
        }
        "C01" => gen_byz(seed, "C01"),
        "C02" => gen_byz(seed, "C02"),
        "C06" => gen_byz(seed, "C06"),
        "C12" => {
            if mix(&[seed, 0xc12f]) % 5 == 0 {
                gen_c12_two_chains(seed)
            } else {
                gen_byz(seed, "C12")
            }
        }
        _ => gen_c03(seed),
    }
}

fn gen_c05_like(seed: u64, prop: &str) -> Plan {
    let big = mix(&[seed, 7]) % 4 == 0;
    let mut b = base(prop, seed, if big { 1500 } else { 300 }, 4);
    if big {
        b.plan.knobs.last_n = pick(&mut b.rng, &[10u64, 100, 100]);
        b.plan.chain.max_txs = 0;
        b.plan.chain.epoch_len = (20, 200);
    }
    connect_all(&mut b, 5_000);
    let until = b.rng.range(30_000, 200_000);
    growth(&mut b, until);
    honest_faults(&mut b, until, true, false);
    // bursts: a proven peer announces a tip far ahead (sampled proof on top of a prove state,
    // across several epochs)
    let bursts = b.rng.range(0, 3);
    for _ in 0..bursts {
        let at = b.rng.range(10_000, until);
        let n = b.rng.range(b.plan.knobs.last_n + 1, b.plan.knobs.last_n + 120);
        add(&mut b.plan, at, Action::Mine { branch: 0, n });
    }
    if b.rng.chance(1, 2) {
        let at = b.rng.range(0, until);
        let tip = b.plan.initial_blocks;
        let scripts = random_scripts(&mut b, 3, tip);
        add(
            &mut b.plan,
            at,
            Action::User(UserOp::SetScripts {
                cmd: SetCmd::All,
                scripts,
            }),
        );
    }
    b.plan.flags = vec!["honest".into(), "expect_converge".into()];
    finish(b, until, 400_000)
}

/// Honest reorgs near a check-point boundary: every peer follows a shallow fork (shallower than
/// the check-point interval and than last-N) that replaces the block at a boundary, then the
/// chain grows by several intervals so that the client asks for check points starting at
/// whatever it kept from before the fork.
fn gen_c05_reorg(seed: u64) -> Plan {
    let mut b = base("C05", mix(&[seed, 0x5e05]), 120, 3);
    let interval = pick(&mut b.rng, &[4u64, 8, 8, 16]);
    b.plan.knobs.check_point_interval = interval;
    b.plan.knobs.last_n = pick(&mut b.rng, &[5u64, 10, 10, 100]);
    b.plan.chain.max_txs = b.plan.chain.max_txs.max(1);
    b.plan.initial_blocks = b.plan.initial_blocks.max(2 * interval + 1);
    for p in b.plan.peers.iter_mut() {
        if p.hashes_batch < 33 {
            p.hashes_batch = 2000;
        }
    }
    connect_all(&mut b, 3_000);
    let t_fork = b.rng.range(40_000, 150_000);
    let mut t = b.rng.range(5_000, 20_000);
    while t < t_fork {
        add(&mut b.plan, t, Action::Mine { branch: 0, n: 1 });
        t += b.rng.range(6_000, 25_000);
    }
    let back = b.rng.range(1, (interval - 1).min(b.plan.knobs.last_n).min(6));
    let n = back + b.rng.range(1, 3);
    add(&mut b.plan, t_fork, Action::Fork { src: 0, back, n });
    for p in 0..b.plan.peers.len() {
        let at = t_fork + b.rng.range(1, 4_000);
        add(&mut b.plan, at, Action::SwitchBranch { peer: p, branch: 1 });
    }
    let until = t_fork + 3 * interval * 22_000 + b.rng.range(0, 60_000);
    let mut t = t_fork + b.rng.range(8_000, 25_000);
    while t < until {
        add(&mut b.plan, t, Action::Mine { branch: 1, n: 1 });
        t += b.rng.range(8_000, 30_000);
    }
    if b.rng.chance(1, 2) {
        let at = b.rng.range(0, t_fork);
        let tip = b.plan.initial_blocks;
        let scripts = random_scripts(&mut b, 3, tip);
        add(&mut b.plan, at, Action::User(UserOp::SetScripts { cmd: SetCmd::All, scripts }));
    }
    b.plan.flags = vec!["honest".into(), "expect_converge".into(), "main=1".into(), "fork".into()];
    finish(b, until, 400_000)
}

/// Honest peers on competing chains: a fork about last-n deep, one peer switches and proves the
/// new chain, the new chain grows a little, and only then the other peers follow and announce a
/// tip a few blocks above the header the client has proven for them (a small-gap request whose
/// start is moved back into the remembered window, answered honestly) - so that the remembered
/// window is assembled from what the peer proved on the *old* chain and what it proves now.
fn gen_c12_two_chains(seed: u64) -> Plan {
    let mut b = base("C12", mix(&[seed, 0x12c2]), 80, 3);
    let last_n = pick(&mut b.rng, &[3u64, 5, 8, 10]);
    b.plan.knobs.last_n = last_n;
    b.plan.knobs.check_point_interval = 2000;
    b.plan.initial_blocks = b.plan.initial_blocks.max(2 * last_n + 3);
    if b.plan.peers.len() < 2 {
        let extra = b.plan.peers[0].clone();
        b.plan.peers.push(extra);
    }
    // the peers connect one after the other (each is proven before the next one announces), and
    // a peer that was dropped comes back
    for p in 0..b.plan.peers.len() {
        let mut at = 500 + 9_000 * p as u64 + b.rng.range(0, 2_000);
        add(&mut b.plan, at, Action::Connect { peer: p });
        while at < 400_000 {
            at += b.rng.range(25_000, 70_000);
            add(&mut b.plan, at, Action::Connect { peer: p });
        }
    }
    let mut t = b.rng.range(40_000, 70_000);
    // (a peer whose last state does not change for a minute is dropped: the chain keeps growing)
    let mut tg = b.rng.range(12_000, 25_000);
    while tg + 5_000 < t {
        add(&mut b.plan, tg, Action::Mine { branch: 0, n: 1 });
        tg += b.rng.range(15_000, 30_000);
    }
    let mut branch = 0usize;
    let rounds = b.rng.range(1, 3);
    let mut until = t;
    for _ in 0..rounds {
        // (deeper than last-n is the documented long-fork abort)
        let back = pick(&mut b.rng, &[last_n.saturating_sub(2).max(1), last_n - 1, last_n - 1, last_n]);
        let n = back + b.rng.range(1, 2);
        // (the peers that stay on the old chain for a while must not be dropped for a last state
        // that does not change: a last block there right before the fork, and they follow within
        // half a minute)
        add(&mut b.plan, t.saturating_sub(3_000), Action::Mine { branch, n: 1 });
        add(&mut b.plan, t, Action::Fork { src: branch, back, n });
        branch += 1;
        let first = b.rng.usize_below(b.plan.peers.len());
        add(&mut b.plan, t + b.rng.range(100, 2_000), Action::SwitchBranch { peer: first, branch });
        // the first peer is proven on the new chain; the chain grows; the others follow
        let mut tm = t + b.rng.range(10_000, 16_000);
        for _ in 0..b.rng.range(1, 3) {
            add(&mut b.plan, tm, Action::Mine { branch, n: 1 });
            tm += b.rng.range(2_000, 5_000);
        }
        // in two of three rounds the first peer is away when the others follow, and a block they
        // have not announced yet is mined right before: they must prove it themselves, starting
        // from what they proved on the old chain (otherwise the first peer's state is copied)
        let alone = b.rng.chance(2, 3);
        if alone {
            add(&mut b.plan, tm, Action::Disconnect { peer: first });
            add(&mut b.plan, tm + 300, Action::Mine { branch, n: 1 });
            tm += 600;
        }
        for p in 0..b.plan.peers.len() {
            if p != first {
                add(&mut b.plan, tm + b.rng.range(100, 6_000), Action::SwitchBranch { peer: p, branch });
            }
        }
        tm += 20_000;
        for _ in 0..b.rng.range(1, 4) {
            add(&mut b.plan, tm, Action::Mine { branch, n: 1 });
            tm += b.rng.range(8_000, 25_000);
        }
        t = tm + b.rng.range(5_000, 15_000);
        until = t;
    }
    b.plan.flags = vec!["honest".into(), format!("main={}", branch), "fork".into()];
    finish(b, until, 300_000)
}

fn gen_c05(seed: u64) -> Plan {
    if mix(&[seed, 0xc05d]) % 6 == 0 {
        return gen_c05_reorg(seed);
    }
    if mix(&[seed, 0xc05f]) % 12 == 0 {
        // slow honest peers: the proof request is answered late with a newer last state only, the
        // replacing request late again; refresh ticks fall between the two deadlines
        let mut p = gen_c11_slow(seed);
        p.property = "C05".into();
        p.flags = vec!["honest".into()];
        return p;
    }
    gen_c05_like(seed, "C05")
}

fn gen_c03(seed: u64) -> Plan {
    let mut b = base("C03", seed, 250, 3);
    connect_all(&mut b, 3_000);
    let until = b.rng.range(20_000, 150_000);
    growth(&mut b, until);
    honest_faults(&mut b, until, true, false);
    // scripts: one initial registration, possibly more later
    let tip = b.plan.initial_blocks;
    let at = b.rng.range(0, 10_000);
    let scripts = random_scripts(&mut b, 4, tip);
    add(
        &mut b.plan,
        at,
        Action::User(UserOp::SetScripts {
            cmd: SetCmd::All,
            scripts,
        }),
    );
    // interleaved user activity
    let n_ops = b.rng.range(0, 8);
    for _ in 0..n_ops {
        let at = b.rng.range(0, until);
        let number = b.rng.range(0, tip + 5);
        let op = match b.rng.below(6) {
            0 => UserOp::FetchTransaction(HashRef::Tx {
                branch: 0,
                number,
                k: b.rng.range(0, 3),
            }),
            1 => UserOp::FetchHeader(HashRef::Block { branch: 0, number }),
            2 => UserOp::GetTipHeader,
            3 => UserOp::Audit,
            4 => UserOp::GetScripts,
            _ => UserOp::FetchTransaction(HashRef::Tx {
                branch: 0,
                number,
                k: 0,
            }),
        };
        add(&mut b.plan, at, Action::User(op));
    }
    b.plan.flags = vec![
        "honest".into(),
        "index".into(),
        "expect_caught_up".into(),
        "expect_converge".into(),
        "stop_when_caught_up".into(),
    ];
    finish(b, until, 900_000)
}

/// Fork switches at arbitrary sync phases (below / at / above last-N).
fn gen_c04(seed: u64) -> Plan {
    let mut b = base("C04", seed, 200, 3);
    // in a third of the worlds a new branch takes up the transactions of the blocks it abandons
    // (at other heights and indexes), as a real reorg does
    b.plan.chain.recommit = mix(&[seed, 0xc04e]) % 3 == 0;
    if b.rng.chance(2, 3) {
        b.plan.knobs.last_n = pick(&mut b.rng, &[2u64, 3, 5, 10]);
    }
    connect_all(&mut b, 3_000);
    // After a reorg every new block clears the peer's latest filter hashes again (the reorg
    // section is inherited by child prove states); with a tiny server batch the hashes can
    // then never be completed between two blocks. Not a stated property: use realistic batches.
    for p in b.plan.peers.iter_mut() {
        if p.hashes_batch < 33 {
            p.hashes_batch = 2000;
        }
    }
    let until = b.rng.range(40_000, 200_000);
    let tip = b.plan.initial_blocks;
    // scripts early, so that the index has content when the fork arrives
    let at = b.rng.range(0, 5_000);
    let mut scripts = random_scripts(&mut b, 4, tip);
    for s in scripts.iter_mut() {
        if b.rng.chance(2, 3) {
            s.1 = b.rng.range(0, (tip / 2).max(1));
        }
    }
    add(
        &mut b.plan,
        at,
        Action::User(UserOp::SetScripts {
            cmd: SetCmd::All,
            scripts,
        }),
    );
    let n_forks = b.rng.range(1, 2);
    let mut main = 0usize;
    let mut t = b.rng.range(3_000, until / 2);
    let np = b.plan.peers.len();
    for f in 0..n_forks {
        // mining on the current main chain before the fork
        let mut tm = if f == 0 { b.rng.range(2_000, 20_000) } else { t + 1_000 };
        while tm < t {
            add(&mut b.plan, tm, Action::Mine { branch: main, n: b.rng.range(1, 2) });
            tm += b.rng.range(5_000, 40_000);
        }
        let last_n = b.plan.knobs.last_n;
        let back = match b.rng.below(8) {
            0 => last_n + b.rng.range(1, 5),          // deeper than last-N: long fork
            1 => last_n,
            2 => last_n.saturating_sub(1).max(1),
            _ => b.rng.range(1, last_n.min(12).max(1)),
        };
        let n = back + b.rng.range(1, 4);
        // a finalized check point is final by design: forks must stay above the last one,
        // i.e. be shallower than the check-point interval
        if b.plan.knobs.check_point_interval <= 2 * back + 2 {
            let ok: Vec<u64> = [8u64, 16, 64, 2000]
                .iter()
                .cloned()
                .filter(|v| *v > 2 * back + 2)
                .collect();
            b.plan.knobs.check_point_interval = pick(&mut b.rng, &ok);
        }
        if b.rng.chance(1, 3) {
            // the fork arrives in the middle of the work: fresh blocks shortly before it, and
            // answers (filters, proofs, bodies) getting lost, so that matched-blocks records are
            // pending above the fork point when the switch happens
            let burst_at = t.saturating_sub(b.rng.range(300, 4_000));
            add(&mut b.plan, burst_at, Action::Mine { branch: main, n: b.rng.range(2, 8) });
            for p in 0..np {
                if b.rng.chance(2, 3) {
                    let at = burst_at + b.rng.range(0, 2_000);
                    add(&mut b.plan, at, Action::LoseAnswers { peer: p, n: b.rng.range(1, 3) });
                }
            }
            b.plan.chain.max_txs = b.plan.chain.max_txs.max(2);
        }
        if b.rng.chance(1, 6) {
            add(&mut b.plan, t.saturating_sub(b.rng.range(100, 3_000)), Action::Restart);
        }
        add(&mut b.plan, t, Action::Fork { src: main, back, n });
        let nb = f as usize + 1;
        for p in 0..np {
            let at = t + b.rng.range(1, 25_000);
            add(&mut b.plan, at, Action::SwitchBranch { peer: p, branch: nb });
        }
        main = nb;
        t += b.rng.range(30_000, 90_000);
    }
    let until = until.max(t);
    // keep the new main chain growing
    let mut tm = t;
    while tm < until {
        add(&mut b.plan, tm, Action::Mine { branch: main, n: 1 });
        tm += b.rng.range(15_000, 40_000);
    }
    let n_ops = b.rng.range(0, 4);
    for _ in 0..n_ops {
        let at = b.rng.range(0, until);
        add(&mut b.plan, at, Action::User(UserOp::Audit));
    }
    b.plan.flags = vec![
        "honest".into(),
        "index".into(),
        "fork".into(),
        "expect_caught_up".into(),
        "stop_when_caught_up".into(),
        format!("main={}", main),
    ];
    finish(b, until, 900_000)
}

/// set_scripts sequences issued at every phase of an ongoing sync.
fn gen_c09(seed: u64) -> Plan {
    let mut b = base("C09", seed, 160, 3);
    connect_all(&mut b, 3_000);
    let until = b.rng.range(30_000, 180_000);
    growth(&mut b, until);
    if b.rng.chance(1, 2) {
        honest_faults(&mut b, until, true, false);
    }
    let tip = b.plan.initial_blocks;
    let n_cmds = b.rng.range(2, 8);
    for i in 0..n_cmds {
        let at = if i == 0 {
            b.rng.range(0, 5_000)
        } else {
            b.rng.range(1_000, until)
        };
        let cmd = match b.rng.below(8) {
            0 | 1 => SetCmd::All,
            2 => SetCmd::Default,
            3 | 4 | 5 => SetCmd::Partial,
            _ => SetCmd::Delete,
        };
        let mut scripts = if b.rng.chance(1, 10) {
            Vec::new()
        } else {
            random_scripts(&mut b, 3, tip)
        };
        if b.rng.chance(1, 6) && !scripts.is_empty() {
            // duplicate entry with another start number
            let mut d = scripts[0].clone();
            d.1 = b.rng.range(0, tip + 3);
            scripts.push(d);
        }
        add(
            &mut b.plan,
            at,
            Action::User(UserOp::SetScripts { cmd, scripts }),
        );
    }
    if mix(&[seed, 0xc09f]) % 2 == 0 {
        // answers to re-asked filter requests arrive twice, the second copy a little later, and
        // documented no-op commands (empty list with partial / delete) fall in between
        for p in 0..b.plan.peers.len() {
            for ord in 0..14u64 {
                if mix(&[seed, 0xc0a0, p as u64, ord]) % 2 == 0 {
                    b.plan.peers[p].mutations.push(MutSpec { kind: 4, ordinal: ord, op: 1003, seed: mix(&[seed, 0xc0a1, p as u64, ord]) });
                }
            }
        }
        let n = 2 + mix(&[seed, 0xc0a2]) % 6;
        for j in 0..n {
            let at = 2_000 + mix(&[seed, 0xc0a3, j]) % until.max(1);
            let cmd = if mix(&[seed, 0xc0a4, j]) % 2 == 0 { SetCmd::Partial } else { SetCmd::Delete };
            add(&mut b.plan, at, Action::User(UserOp::SetScripts { cmd, scripts: Vec::new() }));
        }
    }
    let n_ops = b.rng.range(0, 5);
    for _ in 0..n_ops {
        let at = b.rng.range(0, until);
        let op = if b.rng.chance(1, 2) { UserOp::Audit } else { UserOp::GetScripts };
        add(&mut b.plan, at, Action::User(op));
    }
    b.plan.flags = vec![
        "honest".into(),
        "index".into(),
        "setscripts".into(),
        "expect_caught_up".into(),
        "stop_when_caught_up".into(),
        format!("audit_stride={}", b.rng.range(3, 12)),
    ];
    finish(b, until, 900_000)
}

/// Short sync histories whose every storage write boundary is then crashed (see `vsim crash`).
fn gen_c08(seed: u64) -> Plan {
    gen_c08_with(seed, false)
}

/// `force_fork`: the history contains a shallow reorg of the kind the client notices and rolls
/// back (used for the C17 histories).
fn gen_c08_with(seed: u64, force_fork: bool) -> Plan {
    let mut b = base("C08", seed, 60, 2);
    b.plan.chain.recommit = mix(&[seed, 0xc08e]) % 3 == 0;
    b.plan.trace_logging = false;
    if b.rng.chance(2, 3) {
        b.plan.knobs.check_point_interval = pick(&mut b.rng, &[4u64, 8]);
        b.plan.initial_blocks = b.plan.initial_blocks.max(3 * b.plan.knobs.check_point_interval + b.rng.range(2, 20));
        b.plan.knobs.max_outbound = b.rng.range(1, (2 * b.plan.peers.len() as u64 - 1).max(1)) as u32;
    }
    connect_all(&mut b, 2_000);
    let until = b.rng.range(15_000, 60_000);
    // a little growth while syncing
    let mut t = b.rng.range(2_000, 20_000);
    while t < until {
        add(&mut b.plan, t, Action::Mine { branch: 0, n: 1 });
        t += b.rng.range(8_000, 30_000);
    }
    let tip = b.plan.initial_blocks;
    let n_cmds = b.rng.range(1, 3);
    for i in 0..n_cmds {
        let at = if i == 0 { b.rng.range(0, 3_000) } else { b.rng.range(3_000, until) };
        let cmd = if i == 0 {
            SetCmd::All
        } else {
            pick(&mut b.rng, &[SetCmd::All, SetCmd::Partial, SetCmd::Delete])
        };
        let mut scripts = random_scripts(&mut b, 3, tip);
        if i == 0 {
            for s in scripts.iter_mut() {
                if b.rng.chance(3, 4) {
                    s.1 = b.rng.range(0, (tip / 2).max(1));
                }
            }
        }
        add(&mut b.plan, at, Action::User(UserOp::SetScripts { cmd, scripts }));
    }
    let mut flags: Vec<String> = vec![
        "honest".into(),
        "index".into(),
        "crash".into(),
        "expect_caught_up".into(),
        "stop_when_caught_up".into(),
    ];
    if b.rng.chance(1, 3) || force_fork {
        // a shallow reorg during the sync: the writes of the fork rollback are crash points too
        let noticed = b.rng.chance(1, 2) || force_fork;
        if noticed {
            // the new tip is more than last-n ahead of the old one, so the request starts at the
            // old tip, the peer sends a reorg section and the client really rolls back
            b.plan.knobs.last_n = pick(&mut b.rng, &[1u64, 2, 3]);
            b.plan.chain.max_txs = b.plan.chain.max_txs.max(2);
        }
        let back = b.rng.range(1, b.plan.knobs.last_n.min(6).max(1));
        let n = if noticed { back + b.plan.knobs.last_n + b.rng.range(1, 3) } else { back + b.rng.range(1, 3) };
        if b.plan.knobs.check_point_interval <= 2 * back + 2 {
            b.plan.knobs.check_point_interval = 2000;
        }
        let t = b.rng.range(4_000, until.max(5_000));
        add(&mut b.plan, t, Action::Fork { src: 0, back, n });
        for p in 0..b.plan.peers.len() {
            let at = t + b.rng.range(1, 8_000);
            add(&mut b.plan, at, Action::SwitchBranch { peer: p, branch: 1 });
        }
        flags.push("main=1".into());
        flags.push("fork".into());
    }
    b.plan.flags = flags;
    finish(b, until, 600_000)
}

/// Crafted, damaged and out-of-context messages in every peer state.
fn gen_c10(seed: u64) -> Plan {
    let mut b = base("C10", seed, 120, 3);
    // the last peer is the attacker; it also behaves like a normal full node in between
    if b.plan.peers.len() < 2 || b.rng.chance(1, 2) {
        let mut a = b.plan.peers[0].clone();
        a.identity = 900;
        b.plan.peers.push(a);
    }
    let attacker = b.plan.peers.len() - 1;
    connect_all(&mut b, 3_000);
    let until = b.rng.range(30_000, 150_000);
    growth(&mut b, until);
    let tip = b.plan.initial_blocks;
    if b.rng.chance(4, 5) {
        let at = b.rng.range(0, 10_000);
        let scripts = random_scripts(&mut b, 3, tip);
        add(&mut b.plan, at, Action::User(UserOp::SetScripts { cmd: SetCmd::All, scripts }));
    }
    if b.rng.chance(1, 3) {
        let at = b.rng.range(0, until);
        add(&mut b.plan, at, Action::User(UserOp::FetchHeader(HashRef::Block { branch: 0, number: b.rng.range(0, tip) })));
        let at = b.rng.range(0, until);
        add(&mut b.plan, at, Action::User(UserOp::FetchTransaction(HashRef::Tx { branch: 0, number: b.rng.range(0, tip), k: 0 })));
    }
    let n = b.rng.range(8, 60);
    let focus = b.rng.below(9); // 8 = all kinds
    for _ in 0..n {
        let at = b.rng.range(500, until);
        let kind = if focus < 8 && b.rng.chance(2, 3) { focus as u32 } else { b.rng.below(8) as u32 };
        let peer = if b.rng.chance(4, 5) { attacker } else { b.rng.usize_below(b.plan.peers.len()) };
        add(
            &mut b.plan,
            at,
            Action::Inject {
                peer,
                spec: InjectSpec { seed: b.rng.next_u64(), kind },
            },
        );
        // a banned attacker comes back under the same identity after the ban
        if b.rng.chance(1, 6) {
            add(&mut b.plan, at + b.rng.range(1_000, 20_000), Action::Connect { peer: attacker });
        }
    }
    if b.rng.chance(1, 4) {
        add(&mut b.plan, b.rng.range(1_000, until), Action::Restart);
    }
    if b.rng.chance(1, 2) {
        // the attacker follows a chain of its own whose last blocks carry inconsistent epoch /
        // difficulty fields, and serves it like an honest node would (valid hashes, chain roots,
        // MMR proofs): the difficulty verification itself is what has to cope
        b.plan.chain.pow = PowKind::Dummy;
        b.plan.chain.base_difficulty = pick(&mut b.rng, &[1_000u64, 50_000, 4_000_000_000]);
        let rounds = b.rng.range(1, 3);
        let mut t = b.rng.range(3_000, until / 2 + 3_001);
        for r in 0..rounds {
            let back = if b.rng.chance(1, 3) { b.rng.range(1, 4) } else { b.rng.range(1, 60) };
            let n = back + b.rng.range(1, 40);
            let spec = Action::ForgeFork {
                src: 0,
                back,
                n,
                forged: b.rng.range(1, 3),
                kind: b.rng.below(10) as u8,
                salt: b.rng.next_u64(),
            };
            add(&mut b.plan, t, spec);
            add(&mut b.plan, t + b.rng.range(1, 3_000), Action::SwitchBranch { peer: attacker, branch: 1 + r as usize });
            add(&mut b.plan, t + b.rng.range(3_000, 9_000), Action::Connect { peer: attacker });
            t += b.rng.range(20_000, 60_000);
        }
    }
    if b.rng.chance(1, 3) {
        // the attacker also answers the client's own proof requests: honest answers whose
        // totals / numbers sit at the arithmetic boundary, or structurally altered ones
        for _ in 0..b.rng.range(1, 6) {
            let kind = pick(&mut b.rng, &[1u32, 1, 2, 3]);
            let op = if b.rng.chance(2, 3) { 2000 } else { b.rng.below(14) as u32 };
            let m = MutSpec { kind, ordinal: b.rng.below(6), op, seed: b.rng.next_u64() };
            b.plan.peers[attacker].mutations.push(m);
        }
        // transactions proofs with boundary positions; the user asks for several transactions of
        // one block at the same moment (they travel in one request)
        for i in 0..3 {
            let m = MutSpec { kind: 3, ordinal: i, op: 2001, seed: mix(&[seed, i, 0xcb]) };
            b.plan.peers[attacker].mutations.push(m);
        }
        for _ in 0..b.rng.range(1, 3) {
            let at = b.rng.range(500, until);
            let number = b.rng.range(1, tip);
            for k in 0..3 {
                add(&mut b.plan, at, Action::User(UserOp::FetchTransaction(HashRef::Tx { branch: 0, number, k })));
            }
        }
        for _ in 0..b.rng.range(1, 5) {
            let at = b.rng.range(500, until);
            let op = if b.rng.chance(1, 2) {
                UserOp::FetchHeader(HashRef::Block { branch: 0, number: b.rng.range(0, tip) })
            } else {
                UserOp::FetchTransaction(HashRef::Tx { branch: 0, number: b.rng.range(0, tip), k: b.rng.below(3) })
            };
            add(&mut b.plan, at, Action::User(op));
        }
    }
    if b.rng.chance(1, 4) {
        // made-up headers with boundary numbers: the user fetches a hash the attacker handed out
        for _ in 0..b.rng.range(1, 4) {
            let at = b.rng.range(4_000, until);
            add(&mut b.plan, at, Action::Inject { peer: attacker, spec: InjectSpec { seed: b.rng.next_u64(), kind: 103 } });
        }
    }
    if mix(&[seed, 0x105]) % 3 == 0 {
        // genuine filter hashes pushed from boundary start numbers while the caches fill
        for j in 0..(3 + mix(&[seed, 0x106]) % 10) {
            let at = 4_000 + mix(&[seed, 0x107, j]) % until.max(1);
            add(&mut b.plan, at, Action::Inject { peer: attacker, spec: InjectSpec { seed: mix(&[seed, 0x108, j]), kind: 105 } });
        }
    }
    if mix(&[seed, 0x10e]) % 2 == 0 {
        // check-point answers that run beyond the proven tip, and their unasked continuation
        for i in 0..3u64 {
            b.plan.peers[attacker].mutations.push(MutSpec { kind: 6, ordinal: i, op: 2003, seed: mix(&[seed, i, 0x10f]) });
        }
    }
    b.plan.flags = vec!["byz".into(), "no_ban_reconnect_delay".into()];
    if b.rng.chance(1, 3) {
        // pending transactions, relay opens / closes, and protocol-open events that race with
        // the end of their session
        let scripts: Vec<(ScriptRef, u64)> = (0..b.plan.chain.n_locks).map(|i| (ScriptRef::Lock(i), 0)).collect();
        add(&mut b.plan, 1, Action::User(UserOp::SetScripts { cmd: SetCmd::All, scripts }));
        b.plan.chain.max_txs = b.plan.chain.max_txs.max(1);
        for _ in 0..b.rng.range(2, 10) {
            let at = b.rng.range(8_000, until);
            let spec = TxSpec { seed: b.rng.next_u64(), source: 0, mutation: if b.rng.chance(2, 3) { 0 } else { b.rng.range(1, 14) as u8 } };
            add(&mut b.plan, at, Action::User(UserOp::SendTransaction(spec)));
        }
        let np = b.plan.peers.len();
        for _ in 0..b.rng.range(2, 8) {
            let at = b.rng.range(8_000, until);
            let peer = b.rng.usize_below(np);
            match b.rng.below(3) {
                0 => add(&mut b.plan, at, Action::RelayOpen { peer }),
                1 => add(&mut b.plan, at, Action::RelayGetTxs { peer }),
                _ => {
                    add(&mut b.plan, at, Action::Disconnect { peer });
                    add(&mut b.plan, at + b.rng.range(100, 5_000), Action::Connect { peer });
                }
            }
        }
        b.plan.flags.push("late_relay_open".into());
        b.plan.flags.push("relay".into());
    }
    finish(b, until, 60_000)
}

/// Deviating peers mutate their own honest answers (kinds chosen per property).
fn gen_byz(seed: u64, prop: &str) -> Plan {
    let mut b = base(prop, seed, 200, 3);
    if b.rng.chance(1, 2) {
        b.plan.knobs.last_n = pick(&mut b.rng, &[2u64, 3, 5, 10]);
    }
    // which answer kinds are attacked: codes of sim::Kind
    let kinds: Vec<u32> = match prop {
        "C01" => vec![1],            // SendLastStateProof
        "C02" => vec![7, 2, 3],      // SendBlock, SendBlocksProof, SendTransactionsProof
        "C06" => vec![4],            // BlockFilters
        _ => vec![0, 1],             // C12: SendLastState, SendLastStateProof
    };
    let np = b.plan.peers.len();
    // at least one deviating peer; in half of the runs one honest peer remains
    let n_dev = if np == 1 { 1 } else { b.rng.range(1, np as u64) as usize };
    for p in 0..n_dev {
        let n_mut = b.rng.range(1, 6);
        for _ in 0..n_mut {
            let kind = *b.rng.pick(&kinds);
            let op = match b.rng.below(12) {
                0 => 1000,
                1 => 1002,
                _ => b.rng.below(14) as u32,
            };
            // (filters: two of the duplicated operator codes stand for the shifted batch)
            let op = if kind == 4 && (op == 12 || op == 13) { 2002 } else { op };
            b.plan.peers[p].mutations.push(MutSpec {
                kind,
                ordinal: b.rng.below(if kind == 4 || kind == 7 { 12 } else { 4 }),
                op,
                seed: b.rng.next_u64(),
            });
        }
        b.plan.peers[p].identity = 500 + p as u64;
        if (prop == "C01" || prop == "C12") && mix(&[seed, p as u64, 0x2005]) % 3 == 0 {
            // (takes effect in worlds with real PoW only)
            let ordinal = mix(&[seed, p as u64, 0x2006]) % 3;
            b.plan.peers[p].mutations.push(MutSpec { kind: 1, ordinal, op: 2005, seed: mix(&[seed, p as u64, 0x2007]) });
        }
        if prop == "C06" {
            // two shifted batches somewhere among the first answers (no draw from the stream)
            for j in 0..2u64 {
                b.plan.peers[p].mutations.push(MutSpec {
                    kind: 4,
                    ordinal: mix(&[seed, p as u64, j, 0x5f]) % 16,
                    op: 2002,
                    seed: mix(&[seed, p as u64, j, 0x60]),
                });
            }
        }
    }
    connect_all(&mut b, 3_000);
    let until = b.rng.range(40_000, 200_000);
    growth(&mut b, until);
    let tip = b.plan.initial_blocks;
    // scripts so that filter sync / block download / proofs of blocks happen
    if prop != "C01" || b.rng.chance(1, 2) {
        let at = b.rng.range(0, 5_000);
        let mut scripts = random_scripts(&mut b, 3, tip);
        for s in scripts.iter_mut() {
            if b.rng.chance(2, 3) {
                s.1 = b.rng.range(0, (tip / 2).max(1));
            }
        }
        add(&mut b.plan, at, Action::User(UserOp::SetScripts { cmd: SetCmd::All, scripts }));
    }
    let mut main_branch = 0usize;
    if prop == "C01" && b.rng.chance(1, 3) {
        // a side branch of the same length (and total difficulty) that nobody follows
        let back = b.rng.range(1, 6);
        let at = b.rng.range(500, until.max(600));
        add(&mut b.plan, at, Action::SideFork { src: 0, back, n: back });
        // make mutation 12 (answer from that branch) likely
        for p in 0..n_dev {
            b.plan.peers[p].mutations.push(MutSpec { kind: 1, ordinal: b.rng.below(12), op: 12, seed: b.rng.next_u64() });
            b.plan.peers[p].mutations.push(MutSpec { kind: 1, ordinal: b.rng.below(12), op: 12, seed: b.rng.next_u64() });
        }
    } else if prop == "C01" && b.rng.chance(1, 2) {
        // a shallow reorg, so that proofs with a reorg section are asked for and mutated
        let back = b.rng.range(1, b.plan.knobs.last_n.min(8).max(1));
        let n = back + b.rng.range(1, 4);
        if b.plan.knobs.check_point_interval <= 2 * back + 2 {
            b.plan.knobs.check_point_interval = 2000;
        }
        let t = b.rng.range(15_000, until.max(16_000));
        add(&mut b.plan, t, Action::Fork { src: 0, back, n });
        for p in 0..np {
            let at = t + b.rng.range(1, 20_000);
            add(&mut b.plan, at, Action::SwitchBranch { peer: p, branch: 1 });
        }
        // answers with a reorg section are coming: alter single headers of later answers
        // (fields the header hash does not cover), often inside that section
        for p in 0..n_dev {
            for j in 0..4u64 {
                b.plan.peers[p].mutations.push(MutSpec {
                    kind: 1,
                    ordinal: 1 + mix(&[seed, p as u64, j, 0x71]) % 10,
                    op: if j % 2 == 0 { 4 } else { 11 },
                    seed: mix(&[seed, p as u64, j, 0x72]),
                });
            }
        }
        let mut tm = t + b.rng.range(10_000, 30_000);
        while tm < until + 30_000 {
            add(&mut b.plan, tm, Action::Mine { branch: 1, n: 1 });
            tm += b.rng.range(15_000, 40_000);
        }
        main_branch = 1;
    }
    if prop == "C02" && b.rng.chance(1, 2) {
        // a stale side branch nobody follows; the user asks for its blocks / transactions, and a
        // deviating peer may answer "as seen from" that branch
        let (back, n) = (b.rng.range(1, 6), b.rng.range(2, 7));
        add(&mut b.plan, b.rng.range(0, 900), Action::SideFork { src: 0, back, n });
        // the deviating peer plants side-branch block hashes into filter batches and pushes
        // their bodies later
        if b.rng.chance(2, 3) {
            for _ in 0..b.rng.range(1, 6) {
                let at = b.rng.range(3_000, until);
                // (one in three: the planted block is the peer's announced, never proven last state)
                let kind = if mix(&[seed, at, 0x68]) % 3 == 0 { 104 } else { 101 };
                add(&mut b.plan, at, Action::Inject { peer: 0, spec: InjectSpec { seed: b.rng.next_u64(), kind } });
                for _ in 0..b.rng.range(1, 4) {
                    let later = at + b.rng.range(200, 20_000);
                    add(&mut b.plan, later, Action::Inject { peer: 0, spec: InjectSpec { seed: b.rng.next_u64(), kind: 102 } });
                }
            }
        }
        // same-height twins: the user asks, at the same moment, for a block / transaction of the
        // side branch and for the main chain's block / transaction of the same number (they travel
        // in one request); the deviating peer adds the side branch's to its proven answer
        if mix(&[seed, 0x2004]) % 2 == 0 {
            for j in 0..b.rng.range(1, 4) {
                let at = mix(&[seed, 0x2005, j]) % until.max(2_000) + 1_000;
                let span = back.min(n).max(1);
                let number = ((tip + 1).saturating_sub(back) + mix(&[seed, 0x2006, j]) % span).max(1);
                let headers = mix(&[seed, 0x2007, j]) % 2 == 0;
                for branch in [0usize, 1] {
                    let op = if headers {
                        UserOp::FetchHeader(HashRef::Block { branch, number })
                    } else {
                        UserOp::FetchTransaction(HashRef::Tx { branch, number, k: 0 })
                    };
                    add(&mut b.plan, at, Action::User(op.clone()));
                    add(&mut b.plan, at + 25_000, Action::User(op));
                }
            }
            for ord in 0..6u64 {
                for kind in [2u32, 3] {
                    b.plan.peers[0].mutations.push(MutSpec { kind, ordinal: ord, op: 2004, seed: mix(&[seed, ord, kind as u64, 0x2008]) });
                }
            }
        }
        for _ in 0..b.rng.range(1, 4) {
            let at = b.rng.range(1_000, until);
            // one of the side branch's own blocks below its tip (clamped to the branch at run time)
            let number = (tip + n).saturating_sub(back + 1 + b.rng.range(0, n - 2));
            let op = if b.rng.chance(2, 3) {
                UserOp::FetchHeader(HashRef::Block { branch: 1, number })
            } else {
                UserOp::FetchTransaction(HashRef::Tx { branch: 1, number, k: 0 })
            };
            // poll a few times so that the request is (re)sent to different peers
            let mut t = at;
            for _ in 0..b.rng.range(1, 4) {
                add(&mut b.plan, t, Action::User(op.clone()));
                t += b.rng.range(2_000, 40_000);
            }
        }
    }
    if prop == "C02" {
        for _ in 0..b.rng.range(1, 5) {
            let at = b.rng.range(1_000, until);
            let number = b.rng.range(0, tip);
            let op = if b.rng.chance(1, 2) {
                UserOp::FetchHeader(HashRef::Block { branch: 0, number })
            } else {
                UserOp::FetchTransaction(HashRef::Tx { branch: 0, number, k: b.rng.range(0, 2) })
            };
            add(&mut b.plan, at, Action::User(op));
        }
    }
    // bursts make already proven peers prove again over large gaps (sampled proofs)
    for _ in 0..b.rng.range(0, 3) {
        let at = b.rng.range(10_000, until);
        let n = b.rng.range(b.plan.knobs.last_n + 1, b.plan.knobs.last_n + 60);
        add(&mut b.plan, at, Action::Mine { branch: 0, n });
    }
    if b.rng.chance(1, 4) {
        add(&mut b.plan, b.rng.range(5_000, until), Action::Restart);
    }
    b.plan.flags = vec!["byz".into(), format!("byz_{}", prop)];
    if main_branch != 0 {
        b.plan.flags.push(format!("main={}", main_branch));
        b.plan.flags.push("fork".into());
    }
    if prop == "C06" {
        // some peers serve one check-point interval of tampered filters with consistent hashes
        // - exactly one such peer, at least two honest-vector peers and a quorum of two, so that
        // it can never win the quorum of the "latest hashes" path on its own
        let np = b.plan.peers.len();
        if np >= 3 && b.rng.chance(1, 2) {
            let p = b.rng.usize_below(np);
            b.plan.peers[p].lie_from = b.rng.range(2, b.plan.initial_blocks.max(3));
            b.plan.peers[p].lie_salt = (b.rng.next_u64() | 2) & !1;
            b.plan.knobs.max_outbound = b.plan.knobs.max_outbound.max(3);
            b.plan.knobs.check_point_interval = pick(&mut b.rng, &[4u64, 8, 16]);
        }
        // a deviating peer poisons the cached hashes at several moments of the sync
        if b.rng.chance(1, 2) {
            let peer = 0usize;
            for _ in 0..b.rng.range(2, 12) {
                let at = b.rng.range(3_000, until);
                add(&mut b.plan, at, Action::Inject { peer, spec: InjectSpec { seed: b.rng.next_u64(), kind: 100 } });
            }
            b.plan.knobs.check_point_interval = pick(&mut b.rng, &[8u64, 16]);
        }
        b.plan.flags.push("byz_filters".into());
        b.plan.flags.push("index".into());
    }
    if prop == "C02" {
        b.plan.flags.push("byz_blocks".into());
        b.plan.flags.push("index".into());
    }
    finish(b, until, 500_000)
}

/// Check-point vectors from honest and deviating peers, in every delivery / tick order.
fn gen_c07(seed: u64) -> Plan {
    let mut b = base("C07", seed, 220, 5);
    b.plan.knobs.check_point_interval = pick(&mut b.rng, &[4u64, 8, 16]);
    let np = b.plan.peers.len();
    b.plan.knobs.max_outbound = b.rng.range(1, 7) as u32;
    b.plan.initial_blocks = b.plan.initial_blocks.max(b.plan.knobs.check_point_interval * b.rng.range(4, 12));
    for p in 0..np {
        b.plan.peers[p].check_points_batch = pick(&mut b.rng, &[2u64, 2, 3, 5, 2000]);
        if b.rng.chance(1, 3) {
            // a deviating vector from some block on
            b.plan.peers[p].lie_from = b.rng.range(1, b.plan.initial_blocks);
            b.plan.peers[p].lie_salt = b.rng.next_u64() | 1;
            b.plan.peers[p].identity = 700 + p as u64;
        }
    }
    // some deviating vectors differ at one or two check points only and agree with the truth
    // again afterwards (decided without consuming the generator's stream)
    for p in 0..np {
        if b.plan.peers[p].lie_salt != 0 && mix(&[seed, p as u64, 0x5ba]) % 2 == 0 {
            b.plan.peers[p].lie_span = 1 + mix(&[seed, p as u64, 0x5bb]) % 2;
        }
    }
    // In some plans the deviating peers collude (one made-up vector), come first and may even be
    // a quorum; the peers reporting the true check points join later, and the process dies
    // between writing check points and writing the final index.
    let collude = np >= 3 && b.rng.chance(1, 4);
    let mut crash_site: Option<String> = None;
    if collude {
        let salt = b.rng.next_u64() | 1;
        let from = b.rng.range(1, b.plan.initial_blocks);
        let n_liars = b.rng.range(1, (np as u64 + 1) / 2) as usize;
        for p in 0..np {
            if p < n_liars {
                b.plan.peers[p].lie_from = from;
                b.plan.peers[p].lie_salt = salt;
                b.plan.peers[p].identity = 700 + p as u64;
            } else {
                b.plan.peers[p].lie_from = 0;
                b.plan.peers[p].lie_salt = 0;
            }
        }
        b.plan.knobs.max_outbound = b.rng.range(1, (2 * n_liars as u64).max(1)) as u32;
        if b.rng.chance(2, 3) {
            crash_site = Some(format!(
                "crash_site={}:{}",
                *b.rng.pick(&["put_max_check_point_index", "batch_commit", "put_max_check_point_index"]),
                b.rng.range(1, 3)
            ));
        }
        for p in 0..np {
            let at = if p < n_liars { b.rng.range(0, 3_000) } else { b.rng.range(40_000, 150_000) };
            add(&mut b.plan, at, Action::Connect { peer: p });
            if p < n_liars && b.rng.chance(1, 2) {
                add(&mut b.plan, b.rng.range(30_000, 60_000), Action::Disconnect { peer: p });
            }
        }
    } else {
        // peers connect at very different times
        for p in 0..np {
            let at = if b.rng.chance(1, 2) { b.rng.range(0, 3_000) } else { b.rng.range(3_000, 150_000) };
            add(&mut b.plan, at, Action::Connect { peer: p });
        }
    }
    let until = b.rng.range(60_000, 250_000);
    growth(&mut b, until);
    // the chain crosses several check-point intervals while the run goes on, so that check
    // points are finalized round after round
    if b.rng.chance(2, 3) {
        let mut t = b.rng.range(10_000, 40_000);
        let i = b.plan.knobs.check_point_interval;
        while t < until {
            add(&mut b.plan, t, Action::Mine { branch: 0, n: b.rng.range(i / 2, 3 * i) });
            t += b.rng.range(15_000, 50_000);
        }
    }
    // churn
    for _ in 0..b.rng.range(0, 6) {
        let at = b.rng.range(5_000, until);
        let peer = b.rng.usize_below(np);
        add(&mut b.plan, at, Action::Disconnect { peer });
        add(&mut b.plan, at + b.rng.range(500, 40_000), Action::Connect { peer });
    }
    if b.rng.chance(1, 3) {
        add(&mut b.plan, b.rng.range(20_000, until), Action::Restart);
    }
    if b.rng.chance(1, 2) {
        let tip = b.plan.initial_blocks;
        let scripts = random_scripts(&mut b, 2, tip);
        add(&mut b.plan, b.rng.range(0, 20_000), Action::User(UserOp::SetScripts { cmd: SetCmd::All, scripts }));
    }
    b.plan.flags = vec!["byz".into(), "checkpoints".into()];
    if let Some(f) = crash_site {
        b.plan.flags.push(f);
    } else if b.rng.chance(1, 3) {
        // the process dies before one of its storage writes (e.g. between the check points and
        // the final index) and restarts from the store
        b.plan.flags.push(format!("crash_at={}", b.rng.range(3, 90)));
    }
    finish(b, until, 120_000)
}

/// fetch_header / fetch_transaction / get_transaction polled over time under honest-net faults.
/// A fetch is registered for a transaction that filter sync then indexes; a shallow fork
/// re-commits the transaction at another height; the (delayed) proven answer arrives after the
/// switch and names the new place; the new chain's block at the old height gets stored.
fn gen_c16_recommit(seed: u64) -> Plan {
    let mut b = base("C16", mix(&[seed, 0x5ec0]), 60, 2);
    b.plan.chain.recommit = true;
    b.plan.chain.max_txs = b.plan.chain.max_txs.max(2);
    b.plan.initial_blocks = b.plan.initial_blocks.max(12);
    let np = b.plan.peers.len();
    for p in 0..np {
        // the first answers to the fetch get lost
        for i in 0..b.rng.range(1, 2) {
            b.plan.peers[p].mutations.push(MutSpec { kind: 3, ordinal: i, op: 1001, seed: b.rng.next_u64() });
        }
    }
    connect_all(&mut b, 1_000);
    let until = b.rng.range(120_000, 260_000);
    let tip = b.plan.initial_blocks;
    let scripts: Vec<(ScriptRef, u64)> = (0..b.plan.chain.n_locks).map(|i| (ScriptRef::Lock(i), 0)).collect();
    add(&mut b.plan, 1, Action::User(UserOp::SetScripts { cmd: SetCmd::All, scripts }));
    let back = b.rng.range(1, b.plan.knobs.last_n.min(6).max(1));
    let n = back + b.rng.range(1, 4);
    if b.plan.knobs.check_point_interval <= 2 * back + 2 {
        b.plan.knobs.check_point_interval = 2000;
    }
    let t = b.rng.range(40_000, 100_000);
    add(&mut b.plan, t, Action::Fork { src: 0, back, n });
    for p in 0..np {
        let at = t + b.rng.range(1, 10_000);
        add(&mut b.plan, at, Action::SwitchBranch { peer: p, branch: 1 });
    }
    let mut tm = t + b.rng.range(10_000, 30_000);
    while tm < until + 30_000 {
        add(&mut b.plan, tm, Action::Mine { branch: 1, n: 1 });
        tm += b.rng.range(15_000, 40_000);
    }
    // the abandoned blocks' transactions: asked for before sync reaches them, polled afterwards
    for _ in 0..b.rng.range(1, 4) {
        let number = tip.saturating_sub(b.rng.range(0, back.saturating_sub(1)));
        let href = HashRef::Tx { branch: 0, number, k: b.rng.range(0, 2) };
        add(&mut b.plan, b.rng.range(2, 2_000), Action::User(UserOp::FetchTransaction(href.clone())));
        let mut at = b.rng.range(3_000, t);
        while at < until + 150_000 {
            let op = if b.rng.chance(1, 2) { UserOp::GetTransaction(href.clone()) } else { UserOp::FetchTransaction(href.clone()) };
            add(&mut b.plan, at, Action::User(op));
            at += b.rng.range(5_000, 50_000);
        }
    }
    if b.rng.chance(1, 2) {
        // the scripts that made filter sync index those transactions are dropped before the
        // fork (nothing re-indexes them on the new branch), and the user fetches the headers
        // of the new branch at the abandoned heights
        let keep = b.rng.usize_below(b.plan.chain.n_locks);
        let at = b.rng.range(t * 3 / 4, t);
        add(&mut b.plan, at, Action::User(UserOp::SetScripts { cmd: SetCmd::All, scripts: vec![(ScriptRef::Lock(keep), tip)] }));
        for _ in 0..b.rng.range(2, 6) {
            let number = tip.saturating_sub(b.rng.range(0, back.saturating_sub(1)));
            let at = t + b.rng.range(11_000, 60_000);
            add(&mut b.plan, at, Action::User(UserOp::FetchHeader(HashRef::Block { branch: 1, number })));
        }
    }
    // peers dropped for an unanswered request come back
    for p in 0..np {
        let mut at = b.rng.range(30_000, 70_000);
        while at < until {
            add(&mut b.plan, at, Action::Connect { peer: p });
            at += b.rng.range(20_000, 70_000);
        }
    }
    b.plan.flags = vec!["honest".into(), "fetch".into(), "main=1".into(), "fork".into()];
    finish(b, until, 200_000)
}

fn gen_c16(seed: u64) -> Plan {
    if mix(&[seed, 0xc16d]) % 6 == 0 {
        return gen_c16_recommit(seed);
    }
    let mut b = base("C16", seed, 160, 3);
    connect_all(&mut b, 3_000);
    let until = b.rng.range(40_000, 160_000);
    growth(&mut b, until);
    let allow_restart = b.rng.chance(1, 3);
    honest_faults(&mut b, until, allow_restart, false);
    let tip = b.plan.initial_blocks;
    let side = b.rng.chance(1, 2);
    if side {
        // a stale sibling branch that nobody follows (its blocks exist, but are not on the chain)
        let (at, back, n) = (b.rng.range(0, 5_000), b.rng.range(1, 6), b.rng.range(1, 6));
        add(&mut b.plan, at, Action::SideFork { src: 0, back, n });
    }
    if b.rng.chance(2, 3) {
        let scripts = random_scripts(&mut b, 3, tip);
        let at = b.rng.range(0, 20_000);
        add(&mut b.plan, at, Action::User(UserOp::SetScripts { cmd: SetCmd::All, scripts }));
    }
    let n_items = b.rng.range(2, 7);
    for _ in 0..n_items {
        let href = match b.rng.below(8) {
            0 => HashRef::Bogus(b.rng.next_u64()),
            1 | 2 if side => HashRef::Block { branch: 1, number: tip + 10 },
            3 => HashRef::Block { branch: 0, number: tip + b.rng.range(0, 3) },
            _ => HashRef::Block { branch: 0, number: b.rng.range(0, tip) },
        };
        let is_tx = b.rng.chance(1, 2);
        let href = if is_tx {
            match href {
                HashRef::Block { branch, number } => HashRef::Tx { branch, number, k: b.rng.range(0, 2) },
                x => x,
            }
        } else {
            href
        };
        let mut t = b.rng.range(1_000, until / 2);
        let polls = b.rng.range(2, 7);
        for _ in 0..polls {
            let op = if is_tx {
                if b.rng.chance(1, 5) {
                    UserOp::GetTransaction(href.clone())
                } else {
                    UserOp::FetchTransaction(href.clone())
                }
            } else {
                UserOp::FetchHeader(href.clone())
            };
            add(&mut b.plan, t, Action::User(op));
            t += b.rng.range(500, 30_000);
        }
    }
    // bursts: several fetches of one kind at the same instant travel in one request, so that one
    // answer carries found and missing items together
    if mix(&[seed, 0xb0057]) % 2 == 0 {
        for j in 0..(1 + mix(&[seed, 0xb0058]) % 3) {
            let is_tx = mix(&[seed, 0xb0059, j]) % 2 == 0;
            let at = 1_000 + mix(&[seed, 0xb005a, j]) % (until / 2).max(1);
            let n = 2 + mix(&[seed, 0xb005b, j]) % 3;
            for i in 0..n {
                let r = mix(&[seed, 0xb005c, j, i]);
                let href = match (i, r % 4) {
                    (0, _) => HashRef::Block { branch: 0, number: r % tip.max(1) },
                    (1, 0) if side => HashRef::Block { branch: 1, number: tip + 10 },
                    (1, _) => HashRef::Bogus(r),
                    (_, 0) => HashRef::Bogus(r),
                    _ => HashRef::Block { branch: 0, number: (r >> 8) % tip.max(1) },
                };
                let href = match (is_tx, href) {
                    (true, HashRef::Block { branch, number }) => HashRef::Tx { branch, number, k: r % 2 },
                    (_, x) => x,
                };
                let op = if is_tx { UserOp::FetchTransaction(href) } else { UserOp::FetchHeader(href) };
                for k in 0..3u64 {
                    add(&mut b.plan, at + k * (7_000 + mix(&[seed, 0xb005d, j]) % 20_000), Action::User(op.clone()));
                }
            }
        }
    }
    let mut flags: Vec<String> = vec!["honest".into(), "fetch".into(), "expect_converge".into()];
    if !side && b.rng.chance(1, 4) {
        // a real reorg while fetches are under way: requests that name the abandoned tip are
        // answered with the new tip only
        let back = b.rng.range(1, b.plan.knobs.last_n.min(6).max(1));
        let n = back + b.rng.range(1, 3);
        if b.plan.knobs.check_point_interval <= 2 * back + 2 {
            b.plan.knobs.check_point_interval = 2000;
        }
        let t = b.rng.range(5_000, until.max(6_000));
        add(&mut b.plan, t, Action::Fork { src: 0, back, n });
        for p in 0..b.plan.peers.len() {
            let at = t + b.rng.range(1, 15_000);
            add(&mut b.plan, at, Action::SwitchBranch { peer: p, branch: 1 });
        }
        let mut tm = t + b.rng.range(10_000, 30_000);
        while tm < until + 30_000 {
            add(&mut b.plan, tm, Action::Mine { branch: 1, n: 1 });
            tm += b.rng.range(15_000, 40_000);
        }
        flags.push("main=1".into());
        flags.push("fork".into());
        // "fork switches that put a different block at a height that a stored transaction refers
        // to": every lock script is watched from genesis on, so that the transactions of the
        // abandoned blocks are stored, and after the switch the user asks for exactly those
        if b.rng.chance(2, 3) {
            let scripts: Vec<(ScriptRef, u64)> = (0..b.plan.chain.n_locks).map(|i| (ScriptRef::Lock(i), 0)).collect();
            add(&mut b.plan, 1, Action::User(UserOp::SetScripts { cmd: SetCmd::All, scripts }));
            b.plan.chain.max_txs = b.plan.chain.max_txs.max(2);
            let fork_tip: u64 = b.plan.initial_blocks
                + b.plan
                    .actions
                    .iter()
                    .filter_map(|a| match &a.action {
                        Action::Mine { branch: 0, n } if a.at < t => Some(*n),
                        _ => None,
                    })
                    .sum::<u64>();
            for _ in 0..b.rng.range(2, 6) {
                let number = fork_tip.saturating_sub(b.rng.range(0, back.saturating_sub(1)));
                let href = HashRef::Tx { branch: 0, number, k: b.rng.range(0, 2) };
                let mut at = b.rng.range(1_000, t.max(1_001));
                for _ in 0..b.rng.range(2, 6) {
                    let op = if b.rng.chance(1, 2) { UserOp::GetTransaction(href.clone()) } else { UserOp::FetchTransaction(href.clone()) };
                    add(&mut b.plan, at, Action::User(op));
                    at += b.rng.range(5_000, 60_000);
                }
            }
        }
    }
    b.plan.flags = flags;
    finish(b, until, 200_000)
}

/// Random event orders: connects, disconnects, ticks, solicited / unsolicited / duplicated
/// messages, clock positions around the 8 s and 60 s boundaries.
/// Slow peers: the proof request is answered late and with a newer last state only (the chain
/// grew meanwhile), the replacing request is answered late again; refresh ticks fall between 60 s
/// after the first request and 60 s after the second.
fn gen_c11_slow(seed: u64) -> Plan {
    let mut b = base("C11", mix(&[seed, 0x11e]), 60, 2);
    let np = b.plan.peers.len();
    let mut until = 0;
    for p in 0..np {
        let connect_at = b.rng.range(0, 500);
        add(&mut b.plan, connect_at, Action::Connect { peer: p });
        let (lat, jit) = (b.plan.peers[p].latency, b.plan.peers[p].jitter);
        // after the peer has answered GetLastState, before the proof request reaches it
        let stall_at = connect_at + lat + jit + (2 * lat).saturating_sub(2 * jit) / 2 + 1;
        let s1 = b.rng.range(35_000, 56_000);
        add(&mut b.plan, stall_at, Action::Stall { peer: p, ms: s1 });
        add(&mut b.plan, stall_at + b.rng.range(1_000, s1 - 1_000), Action::Mine { branch: 0, n: 1 });
        let s2 = b.rng.range(30_000, 64_000);
        add(&mut b.plan, stall_at + s1 + 1, Action::Stall { peer: p, ms: s2 });
        until = until.max(stall_at + s1 + s2 + 20_000);
    }
    b.plan.flags = vec!["byz".into(), "statemachine".into()];
    finish(b, until, 150_000)
}

fn gen_c11(seed: u64) -> Plan {
    if mix(&[seed, 0xc11e]) % 5 == 0 {
        return gen_c11_slow(seed);
    }
    let mut b = base("C11", seed, 80, 3);
    let np = b.plan.peers.len();
    for p in 0..np {
        // duplicated answers
        for _ in 0..b.rng.range(0, 4) {
            let kind = *b.rng.pick(&[0u32, 1, 2, 3]);
            b.plan.peers[p].mutations.push(MutSpec { kind, ordinal: b.rng.below(6), op: 1000, seed: b.rng.next_u64() });
        }
    }
    connect_all(&mut b, 20_000);
    let until = b.rng.range(60_000, 250_000);
    growth(&mut b, until);
    if b.rng.chance(2, 3) {
        let tip = b.plan.initial_blocks;
        let scripts = random_scripts(&mut b, 2, tip);
        let at = b.rng.range(0, 20_000);
        add(&mut b.plan, at, Action::User(UserOp::SetScripts { cmd: SetCmd::All, scripts }));
    }
    for _ in 0..b.rng.range(2, 14) {
        let at = b.rng.range(1_000, until);
        let peer = b.rng.usize_below(np);
        match b.rng.below(9) {
            0 => add(&mut b.plan, at, Action::Stall { peer, ms: *b.rng.pick(&[7_000u64, 9_000, 59_000, 61_000, 70_000, 130_000]) }),
            1 => add(&mut b.plan, at, Action::LoseAnswers { peer, n: b.rng.range(1, 3) }),
            2 => {
                add(&mut b.plan, at, Action::Disconnect { peer });
                add(&mut b.plan, at + b.rng.range(100, 30_000), Action::Connect { peer });
            }
            3 => {
                if b.rng.chance(2, 3) {
                    add(&mut b.plan, at, Action::ClockJump { ms: *b.rng.pick(&[7_900u64, 8_100, 52_000, 59_900, 60_100, 61_000]) });
                } else {
                    add(&mut b.plan, at, Action::ClockSkew { ms: *b.rng.pick(&[-20_000i64, -8_100, -1_000, 8_100, 59_900, 60_100, 3_600_000]) });
                }
            }
            4 | 5 => add(&mut b.plan, at, Action::Inject { peer, spec: InjectSpec { seed: b.rng.next_u64(), kind: 2 } }),
            6 => {
                let number = b.rng.range(0, b.plan.initial_blocks);
                add(&mut b.plan, at, Action::User(UserOp::FetchHeader(HashRef::Block { branch: 0, number })));
            }
            7 => {
                let number = b.rng.range(0, b.plan.initial_blocks);
                add(&mut b.plan, at, Action::User(UserOp::FetchTransaction(HashRef::Tx { branch: 0, number, k: 0 })));
            }
            _ => add(&mut b.plan, at, Action::Mine { branch: 0, n: b.rng.range(1, 3) }),
        }
    }
    b.plan.flags = vec!["byz".into(), "statemachine".into()];
    finish(b, until, 150_000)
}

/// Submissions (valid, mutated, dependent on pending ones, resubmitted, bursts beyond the pool
/// limit) interleaved with sync, relay opens / closes, relay ticks, requests for the bodies,
/// reconnects and restarts.
fn gen_c18(seed: u64) -> Plan {
    let mut b = base("C18", seed, 60, 3);
    b.plan.chain.max_txs = b.rng.range(1, 4);
    if b.plan.chain.pow == PowKind::Eaglesong && b.rng.chance(2, 3) {
        b.plan.chain.pow = PowKind::Dummy;
        b.plan.chain.base_difficulty = 50_000;
    }
    let np = b.plan.peers.len();
    connect_all(&mut b, 2_000);
    let until = b.rng.range(40_000, 140_000);
    growth(&mut b, until);
    // the user watches (nearly always) every lock script from genesis on, so that the code cell
    // and a good part of the live cells are known to the client
    let scripts: Vec<(ScriptRef, u64)> = if b.rng.chance(7, 8) {
        (0..b.plan.chain.n_locks).map(|i| (ScriptRef::Lock(i), 0)).collect()
    } else {
        let tip = b.plan.initial_blocks;
        random_scripts(&mut b, 3, tip)
    };
    // in a quarter of the worlds the scripts are watched from a few blocks below the tip only: the
    // client then knows the newest headers but not the 37 a median time is computed from
    let scripts = if mix(&[seed, 0x18e]) % 4 == 0 {
        let from = b.plan.initial_blocks.saturating_sub(2 + mix(&[seed, 0x18f]) % 14);
        (0..b.plan.chain.n_locks).map(|i| (ScriptRef::Lock(i), from)).collect()
    } else {
        scripts
    };
    add(&mut b.plan, b.rng.range(0, 3_000), Action::User(UserOp::SetScripts { cmd: SetCmd::All, scripts }));
    let n_sub = if b.rng.chance(1, 4) { b.rng.range(70, 110) } else { b.rng.range(3, 24) };
    let burst = n_sub > 60;
    let mut t = b.rng.range(10_000, until / 2);
    for _ in 0..n_sub {
        let mutation = if burst {
            match b.rng.below(20) {
                0 => b.rng.range(1, 14) as u8,
                1 | 2 | 3 => 20,
                _ => 0,
            }
        } else {
            match b.rng.below(10) {
                0..=3 => 0,
                4 => 20,
                _ => b.rng.range(1, 14) as u8,
            }
        };
        // bursts build long chains of dependent pending transactions
        let source = if b.rng.chance(1, 3) || (burst && b.rng.chance(1, 2)) { 1 } else { 0 };
        let spec = TxSpec { seed: b.rng.next_u64(), source, mutation };
        let op = if b.rng.chance(1, 4) && !burst { UserOp::EstimateCycles(spec) } else { UserOp::SendTransaction(spec) };
        add(&mut b.plan, t, Action::User(op));
        t += if burst { b.rng.range(10, 1_500) } else { b.rng.range(100, (until / 10).max(200)) };
    }
    for _ in 0..b.rng.range(2, 12) {
        let at = b.rng.range(5_000, until);
        let peer = b.rng.usize_below(np);
        match b.rng.below(8) {
            0 | 1 | 2 => add(&mut b.plan, at, Action::RelayOpen { peer }),
            3 => add(&mut b.plan, at, Action::RelayClose { peer }),
            4 | 5 => add(&mut b.plan, at, Action::RelayGetTxs { peer }),
            6 => {
                add(&mut b.plan, at, Action::Disconnect { peer });
                add(&mut b.plan, at + b.rng.range(100, 10_000), Action::Connect { peer });
                add(&mut b.plan, at + b.rng.range(10_000, 20_000), Action::RelayOpen { peer });
            }
            _ => {
                if b.rng.chance(1, 3) {
                    add(&mut b.plan, at, Action::Restart);
                } else {
                    add(&mut b.plan, at, Action::RelayOpen { peer });
                }
            }
        }
    }
    b.plan.flags = vec!["honest".into(), "relay".into()];
    if b.rng.chance(1, 2) {
        b.plan.flags.push("late_relay_open".into());
    }
    finish(b, until, 100_000)
}

//! vsim — deterministic simulator for ckb-light-client (see /verif/DESIGN.md).
//!
//! The client's own sources are compiled into this crate by path (`reposrc` is a
//! symlink to /repo/src), exactly the non-test module tree of /repo/src/main.rs
//! minus the process entry points (`main`, `config`, `subcmds`, `types`).
#![allow(clippy::all)]
#![allow(dead_code)]
#![allow(unused_imports)]
#![allow(unused_variables)]
#![allow(unused_assignments)]

#[path = "../reposrc/error.rs"]
mod error;
#[path = "../reposrc/protocols/mod.rs"]
mod protocols;
#[path = "../reposrc/service.rs"]
mod service;
#[path = "../reposrc/storage.rs"]
mod storage;
#[path = "../reposrc/utils/mod.rs"]
mod utils;
#[path = "../reposrc/verif_hooks.rs"]
mod verif_hooks;
#[path = "../reposrc/verify.rs"]
mod verify;

mod byz;
mod chain;
mod client;
mod entropy;
mod minimize;
mod net;
mod oracle;
mod oracle2;
mod oracle3;
mod plan;
mod refidx;
mod runner;
mod scen;
mod sched;
mod server;
mod sim;
mod txgen;
mod user;

use std::collections::{BTreeMap, HashSet};
use std::io::Write;

fn arg_val(args: &[String], name: &str) -> Option<String> {
    args.iter()
        .position(|a| a == name)
        .and_then(|i| args.get(i + 1).cloned())
}

fn main() {
    let args: Vec<String> = std::env::args().collect();
    let cmd = args.get(1).map(|s| s.as_str()).unwrap_or("");
    let verbose = args.iter().any(|a| a == "--verbose");
    runner::init_process(verbose);
    let code = match cmd {
        "run" => cmd_run(&args),
        "crash" => cmd_crash(&args),
        "plan" => cmd_plan(&args),
        "replay" => cmd_replay(&args, verbose),
        "minimize" => cmd_minimize(&args),
        _ => {
            eprintln!("usage: vsim run|plan|replay ...");
            2
        }
    };
    runner::cleanup_process();
    std::process::exit(code);
}

fn cmd_plan(args: &[String]) -> i32 {
    let prop = arg_val(args, "--prop").unwrap_or_else(|| "C03".into());
    let master: u64 = arg_val(args, "--seed").and_then(|s| s.parse().ok()).unwrap_or(1);
    let i: u64 = arg_val(args, "--index").and_then(|s| s.parse().ok()).unwrap_or(0);
    let (hist, crash_at) = if prop == "C08" { (i / 100_000, i % 100_000) } else { (i, 0) };
    let mut plan = if prop == "C17" { scen::plan_for(master, &prop, i) } else { scen::gen(&prop, scen::run_seed(master, &prop, hist)) };
    if crash_at > 0 {
        plan.flags.push(format!("crash_at={}", crash_at));
    }
    println!("{}", serde_json::to_string_pretty(&plan).unwrap());
    0
}

/// `vsim run --prop P --seed S --from A --count N [--twice]`
/// One JSON line per run on stdout, then one `SUMMARY` line.
fn cmd_run(args: &[String]) -> i32 {
    let prop = arg_val(args, "--prop").unwrap_or_else(|| "C03".into());
    let master: u64 = arg_val(args, "--seed").and_then(|s| s.parse().ok()).unwrap_or(1);
    let from: u64 = arg_val(args, "--from").and_then(|s| s.parse().ok()).unwrap_or(0);
    let count: u64 = arg_val(args, "--count").and_then(|s| s.parse().ok()).unwrap_or(1);
    let step: u64 = arg_val(args, "--step").and_then(|s| s.parse().ok()).unwrap_or(1);
    let twice: u64 = arg_val(args, "--twice").and_then(|s| s.parse().ok()).unwrap_or(0);
    let deadline = arg_val(args, "--wall")
        .and_then(|s| s.parse::<f64>().ok())
        .map(|s| std::time::Instant::now() + std::time::Duration::from_secs_f64(s));
    let out = std::io::stdout();
    let mut cov: HashSet<u64> = HashSet::new();
    let mut exit = 0;
    let mut done = 0u64;
    let mut k = 0u64;
    while k < count {
        if let Some(d) = deadline {
            if std::time::Instant::now() > d {
                break;
            }
        }
        let i = from + k * step;
        k += 1;
        let plan = scen::plan_for(master, &prop, i);
        let o = runner::execute(&plan, false);
        if k <= twice {
            let o2 = runner::execute(&plan, false);
            if o2.trace_hash != o.trace_hash || o2.events != o.events {
                let mut l = out.lock();
                let _ = writeln!(
                    l,
                    "{}",
                    serde_json::json!({"nondeterminism": true, "index": i, "seed": plan.seed,
                        "a": [o.events, o.trace_hash], "b": [o2.events, o2.trace_hash]})
                );
                exit = 2;
            }
        }
        cov.extend(o.coverage.iter().cloned());
        let mut v = serde_json::to_value(&o).unwrap();
        v["index"] = serde_json::json!(i);
        if o.harness_error.is_some() {
            exit = 2;
        }
        let mut l = out.lock();
        let _ = writeln!(l, "{}", v);
        done += 1;
    }
    let mut covv: Vec<u64> = cov.into_iter().collect();
    covv.sort();
    println!(
        "{}",
        serde_json::json!({"summary": true, "runs": done, "coverage": covv})
    );
    exit
}

fn cmd_replay(args: &[String], verbose: bool) -> i32 {
    let path = match args.get(2) {
        Some(p) => p.clone(),
        None => return 2,
    };
    let text = std::fs::read_to_string(&path).expect("read replay file");
    let v: serde_json::Value = serde_json::from_str(&text).expect("json");
    let plan: plan::Plan = serde_json::from_value(v.get("plan").cloned().unwrap_or(v.clone())).expect("plan");
    let o = runner::execute(&plan, true);
    if verbose {
        for l in &o.trace {
            println!("{}", l);
        }
    }
    println!("{}", serde_json::to_string(&o).unwrap());
    if o.harness_error.is_some() {
        return 2;
    }
    if let Some(key) = v.get("violation_key").and_then(|k| k.as_str()) {
        let same = o.violations.iter().any(|x| x.key() == key);
        let hash_ok = v
            .get("trace_hash")
            .and_then(|h| h.as_u64())
            .map(|h| h == o.trace_hash)
            .unwrap_or(true);
        println!(
            "REPLAY key={} reproduced={} trace_hash_equal={}",
            key, same, hash_ok
        );
        return if same { 1 } else { 0 };
    }
    if o.violations.is_empty() {
        0
    } else {
        1
    }
}

fn cmd_minimize(args: &[String]) -> i32 {
    let path = match args.get(2) {
        Some(p) => p.clone(),
        None => return 2,
    };
    let budget: u64 = arg_val(args, "--budget").and_then(|s| s.parse().ok()).unwrap_or(60);
    let text = std::fs::read_to_string(&path).expect("read replay file");
    let mut v: serde_json::Value = serde_json::from_str(&text).expect("json");
    let plan: plan::Plan = serde_json::from_value(v["plan"].clone()).expect("plan");
    let key = v["violation_key"].as_str().unwrap_or("").to_string();
    match minimize::minimize(&plan, &key, std::time::Duration::from_secs(budget)) {
        Some(r) => {
            println!(
                "minimized: {} -> {} actions, {} -> {} peers, {} -> {} blocks, {} executions",
                plan.actions.len(),
                r.plan.actions.len(),
                plan.peers.len(),
                r.plan.peers.len(),
                plan.initial_blocks,
                r.plan.initial_blocks,
                r.executions
            );
            v["original_actions"] = serde_json::json!(plan.actions.len());
            v["minimized"] = serde_json::json!(true);
            v["minimizer_executions"] = serde_json::json!(r.executions);
            v["plan"] = serde_json::to_value(&r.plan).unwrap();
            v["trace_hash"] = serde_json::json!(r.trace_hash);
            v["detail"] = serde_json::json!(r.detail);
            std::fs::write(&path, serde_json::to_string_pretty(&v).unwrap()).expect("write");
            0
        }
        None => {
            println!("not reproducible: {}", key);
            3
        }
    }
}

/// `vsim crash --prop C08 --seed S --from A --count N [--all]`
/// For each generated history: a crash-free pass counts the write boundaries, then the same
/// plan is re-executed with a crash before write k for every (or a stratified sample of) k.
fn cmd_crash(args: &[String]) -> i32 {
    let prop = arg_val(args, "--prop").unwrap_or_else(|| "C08".into());
    let master: u64 = arg_val(args, "--seed").and_then(|s| s.parse().ok()).unwrap_or(1);
    let from: u64 = arg_val(args, "--from").and_then(|s| s.parse().ok()).unwrap_or(0);
    let count: u64 = arg_val(args, "--count").and_then(|s| s.parse().ok()).unwrap_or(1);
    let step: u64 = arg_val(args, "--step").and_then(|s| s.parse().ok()).unwrap_or(1);
    let all = args.iter().any(|a| a == "--all");
    let sample: u64 = arg_val(args, "--sample").and_then(|s| s.parse().ok()).unwrap_or(14);
    let deadline = arg_val(args, "--wall")
        .and_then(|s| s.parse::<f64>().ok())
        .map(|s| std::time::Instant::now() + std::time::Duration::from_secs_f64(s));
    let out = std::io::stdout();
    let mut cov: HashSet<u64> = HashSet::new();
    let mut exit = 0;
    let mut done = 0u64;
    for k in 0..count {
        if let Some(d) = deadline {
            if std::time::Instant::now() > d {
                break;
            }
        }
        let i = from + k * step;
        let plan = scen::gen(&prop, scen::run_seed(master, &prop, i));
        let base = {
            // the crash-free twin also records which event issued which writes
            let mut bp = plan.clone();
            bp.flags.push("record_writes".into());
            runner::execute(&bp, false)
        };
        if base.harness_error.is_some() {
            exit = 2;
        }
        let w = base.stats.get("writes_total").cloned().unwrap_or(0);
        {
            // the crash-free twin, so that the driver can tell what a crash added
            let mut v = serde_json::to_value(&base).unwrap();
            v["index"] = serde_json::json!(i * 100_000);
            v["history"] = serde_json::json!(i);
            v["crash_at"] = serde_json::json!(0);
            v["base"] = serde_json::json!(true);
            let mut l = out.lock();
            let _ = writeln!(l, "{}", v);
        }
        // which boundaries: all, or every distinct site once plus a seeded stratified sample
        let mut ks: Vec<u64> = Vec::new();
        if all || w <= sample {
            ks = (1..=w).collect();
        } else {
            let mut seen = std::collections::HashSet::new();
            for (idx, site) in base.write_sites.iter().enumerate() {
                // first occurrence of every (site, previous site) pair
                let prev = if idx == 0 { "" } else { base.write_sites[idx - 1].as_str() };
                if seen.insert((site.clone(), prev.to_string())) {
                    ks.push(idx as u64 + 1);
                }
            }
            // every write boundary of the last two events of each kind that writes (a proof
            // commit with rollback, the indexing of the last blocks, a set_scripts, ...)
            {
                let mut by_kind: std::collections::BTreeMap<String, Vec<(u64, u64)>> = Default::default();
                for (_, w0, w1, kind) in base.event_writes.iter() {
                    by_kind.entry(kind.clone()).or_default().push((*w0, *w1));
                }
                for (_, ranges) in by_kind.iter() {
                    for (w0, w1) in ranges.iter().rev().take(2) {
                        for k in *w0..=(*w1).min(*w0 + 11) {
                            ks.push(k);
                        }
                    }
                }
            }
            let mut rng = entropy::Rng::new(entropy::mix(&[plan.seed, 0xc8]));
            // ... plus a seeded random sample of the rest
            let want = (ks.len() as u64 + sample / 2).min(w);
            let mut guard = 0;
            while (ks.len() as u64) < want && guard < 10_000 {
                guard += 1;
                let c = rng.range(1, w);
                if !ks.contains(&c) {
                    ks.push(c);
                }
            }
            ks.sort();
            ks.dedup();
        }
        for kk in ks {
            if let Some(d) = deadline {
                if std::time::Instant::now() > d {
                    break;
                }
            }
            let mut p = plan.clone();
            p.flags.push(format!("crash_at={}", kk));
            let o = runner::execute(&p, false);
            cov.extend(o.coverage.iter().cloned());
            let mut v = serde_json::to_value(&o).unwrap();
            v["index"] = serde_json::json!(i * 100_000 + kk);
            v["history"] = serde_json::json!(i);
            v["crash_at"] = serde_json::json!(kk);
            v["writes_in_history"] = serde_json::json!(w);
            if o.harness_error.is_some() {
                exit = 2;
            }
            let mut l = out.lock();
            let _ = writeln!(l, "{}", v);
            done += 1;
        }
    }
    let mut covv: Vec<u64> = cov.into_iter().collect();
    covv.sort();
    println!(
        "{}",
        serde_json::json!({"summary": true, "runs": done, "coverage": covv})
    );
    exit
}

#[allow(dead_code)]
pub fn debug_block_check(data: &[u8]) -> String {
    use ckb_types::{packed, prelude::*};
    match packed::SyncMessageReader::from_compatible_slice(data).map(|m| m.to_enum()) {
        Ok(packed::SyncMessageUnionReader::SendBlock(r)) => {
            let b = r.to_entity().block();
            let v = b.clone().into_view();
            format!(
                "number {} txroot hdr {:#x} calc {:#x} extra hdr {:#x} calc {:#x} extra_fields {}",
                v.number(),
                v.transactions_root(),
                v.calc_transactions_root(),
                v.extra_hash(),
                v.calc_extra_hash().extra_hash(),
                b.count_extra_fields()
            )
        }
        _ => "not a SendBlock".into(),
    }
}

//! The discrete-event simulator: one seeded scheduler owns time, delivery, faults and
//! user actions; the real client runs inside it, one handler call at a time.

use std::cmp::Ordering;
use std::collections::{BTreeMap, BinaryHeap, HashMap, HashSet};
use std::path::PathBuf;
use std::sync::Arc;

use ckb_network::{bytes::Bytes, PeerIndex};
use ckb_types::{packed, prelude::*};

use crate::byz;
use crate::chain::{World, T0};
use crate::client::{Client, Proto, Unwind};
use crate::entropy::{mix, Rng};
use crate::net::{NetShared, Out};
use crate::oracle::Checker;
use crate::plan::{Action, Plan, Timed, UserOp};
use crate::server::{self, LcAnswer, ProofAnswer, ProofLayout, ServerCfg, View};

#[derive(Clone, Debug, serde::Serialize, serde::Deserialize, PartialEq)]
pub struct Violation {
    pub property: String,
    pub clause: String,
    pub detail: String,
    pub at_event: u64,
    pub at_time: u64,
}

impl Violation {
    pub fn key(&self) -> String {
        format!("{}/{}", self.property, self.clause)
    }
}

/// What kind of answer a peer message is (for mutation addressing and oracles).
#[derive(Clone, Copy, Debug, PartialEq, Eq, Hash, PartialOrd, Ord)]
pub enum Kind {
    SendLastState,
    SendLastStateProof,
    SendBlocksProof,
    SendTransactionsProof,
    BlockFilters,
    BlockFilterHashes,
    BlockFilterCheckPoints,
    SendBlock,
    Relay,
    Injected,
}

impl Kind {
    pub fn code(self) -> u32 {
        self as u32
    }
    pub fn name(self) -> &'static str {
        match self {
            Kind::SendLastState => "SendLastState",
            Kind::SendLastStateProof => "SendLastStateProof",
            Kind::SendBlocksProof => "SendBlocksProof",
            Kind::SendTransactionsProof => "SendTransactionsProof",
            Kind::BlockFilters => "BlockFilters",
            Kind::BlockFilterHashes => "BlockFilterHashes",
            Kind::BlockFilterCheckPoints => "BlockFilterCheckPoints",
            Kind::SendBlock => "SendBlock",
            Kind::Relay => "Relay",
            Kind::Injected => "Injected",
        }
    }
}

/// Provenance of a message on its way to the client.
#[derive(Clone, Debug)]
pub struct Tag {
    pub kind: Kind,
    /// the bytes are exactly what the honest model answered to a request of this client
    pub honest: bool,
    /// the honest answer this message was derived from (None for unsolicited traffic)
    pub canonical: Option<Bytes>,
    /// the request it answers (LightClient protocol)
    pub request: Option<Bytes>,
    pub layout: Option<ProofLayout>,
    pub note: String,
}

impl Tag {
    pub fn honest(kind: Kind) -> Tag {
        Tag {
            kind,
            honest: true,
            canonical: None,
            request: None,
            layout: None,
            note: String::new(),
        }
    }
}

pub enum Ev {
    ToClient {
        session: usize,
        proto: Proto,
        data: Bytes,
        tag: Tag,
        inc: u64,
    },
    ToPeer {
        session: usize,
        proto: Proto,
        data: Bytes,
        inc: u64,
    },
    Timer {
        proto: Proto,
        token: u64,
        interval: u64,
        inc: u64,
    },
    SessionClosed {
        session: usize,
        inc: u64,
        by_client: bool,
    },
    Act(usize),
    /// internal: reconnect a peer after a client restart
    Reconnect {
        peer: usize,
    },
}

struct QItem {
    at: u64,
    seq: u64,
    ev: Ev,
}
impl PartialEq for QItem {
    fn eq(&self, o: &Self) -> bool {
        self.at == o.at && self.seq == o.seq
    }
}
impl Eq for QItem {}
impl PartialOrd for QItem {
    fn partial_cmp(&self, o: &Self) -> Option<Ordering> {
        Some(self.cmp(o))
    }
}
impl Ord for QItem {
    fn cmp(&self, o: &Self) -> Ordering {
        // BinaryHeap is a max-heap: reverse
        (o.at, o.seq).cmp(&(self.at, self.seq))
    }
}

pub struct SimPeer {
    pub idx: usize,
    pub session: Option<usize>,
    pub branch: usize,
    pub view: View,
    pub subscribed: bool,
    pub stalled_until: u64,
    pub lose: u64,
    pub banned_until: u64,
    pub relay_open: bool,
    /// per-kind answer counters (mutation addressing)
    pub answered: HashMap<Kind, u64>,
    /// per-protocol FIFO: the last scheduled delivery time
    last_deliver: HashMap<Proto, u64>,
    sent: u64,
    /// tx hashes announced to this peer over the relay protocol (per session)
    pub relay_announced: Vec<packed::Byte32>,
    pub lag: u64,
    /// a made-up tip this (deviating) peer announced; it "proves" it on request
    pub fake_tip: Option<packed::VerifiableHeader>,
    /// the made-up tip is an unmined copy of this real block: the peer proves it as an honest
    /// node proves the real one
    pub fake_tip_real: Option<crate::server::View>,
    /// hashes of side-branch blocks this (deviating) peer planted into BlockFilters answers
    pub planted: Vec<packed::Byte32>,
    /// made-up headers (with their extension) whose hashes this peer handed to the user
    pub planted_headers: Vec<(packed::Header, packed::Bytes)>,
}

pub struct Sim {
    pub plan: Plan,
    pub world: World,
    pub now: u64,
    pub seq: u64,
    pub events: u64,
    queue: BinaryHeap<QItem>,
    pub(crate) client: Option<Client>,
    pub net: Arc<NetShared>,
    pub dir: PathBuf,
    pub peers: Vec<SimPeer>,
    pub sessions: HashMap<usize, usize>,
    next_session: usize,
    pub incarnation: u64,
    pub oracle: Checker,
    pub stats: BTreeMap<String, u64>,
    pub trace_hash: u64,
    pub trace: Option<Vec<String>>,
    pub coverage: HashSet<u64>,
    pub violations: Vec<Violation>,
    pub harness_error: Option<String>,
    /// C17: pair the event number `.0` (pausing at write `.1`) with operation `.3` in mode `.2`
    pub pair: Option<(u64, u64, String, u64)>,
    pub record_writes: bool,
    pub event_writes: Vec<(u64, u64, u64, String)>,
    pub snapshot: Option<String>,
    pub pair_answer: Option<(bool, String)>,
    /// C17 randomized runs: the executed schedule
    pub schedule: Option<String>,
    pub pair_done: bool,
    /// virtual time of the last fork / branch switch of a peer
    pub last_reorg_at: Option<u64>,
    /// C17 readers: how many further events run while the reader is parked
    pub pair_span: u64,
    pub stop: bool,
    /// crash injection: unwind at this write boundary (1-based), see crash.rs
    pub writes_seen: u64,
    pub last_event_kind: String,
    /// a root-cause violation was found: its consequences are not reported again
    pub taint: Option<String>,
}

pub fn abs_now(now: u64) -> u64 {
    T0 + now
}

impl Sim {
    pub fn new(plan: Plan, dir: PathBuf, verbose: bool) -> Sim {
        CLOCK_SKEW.store(0, std::sync::atomic::Ordering::SeqCst);
        let pair_cfg = {
                let f = |k: &str| plan.flags.iter().find_map(|x| x.strip_prefix(k).map(|v| v.to_string()));
                match (f("pair_event="), f("pair_write="), f("pair_mode="), f("pair_op=")) {
                    (Some(e), Some(w), Some(m), Some(o)) => Some((
                        e.parse().unwrap_or(0),
                        w.parse().unwrap_or(0),
                        m,
                        o.parse().unwrap_or(0),
                    )),
                    _ => None,
                }
            };
        let record_writes = plan.flags.iter().any(|x| x == "record_writes");
        let plan_span = plan.flags.iter().find_map(|x| x.strip_prefix("pair_span=").and_then(|v| v.parse::<u64>().ok())).unwrap_or(0);
        let mut world = World::new(plan.chain.clone());
        // initial main chain, timestamps end at T0
        world.mine_many(0, plan.initial_blocks, T0, 8_000);
        let peers = plan
            .peers
            .iter()
            .enumerate()
            .map(|(idx, p)| SimPeer {
                idx,
                session: None,
                branch: p.branch,
                view: View {
                    branch: 0,
                    height: 0,
                },
                subscribed: false,
                stalled_until: 0,
                lose: 0,
                banned_until: 0,
                relay_open: false,
                answered: HashMap::new(),
                last_deliver: HashMap::new(),
                sent: 0,
                relay_announced: Vec::new(),
                lag: p.lag,
                fake_tip: None,
                fake_tip_real: None,
                planted: Vec::new(),
                planted_headers: Vec::new(),
            })
            .collect();
        let oracle = Checker::new(&plan);
        let mut sim = Sim {
            plan,
            world,
            now: 0,
            seq: 0,
            events: 0,
            queue: BinaryHeap::new(),
            client: None,
            net: NetShared::new(),
            dir,
            peers,
            sessions: HashMap::new(),
            next_session: 1,
            incarnation: 0,
            oracle,
            stats: BTreeMap::new(),
            trace_hash: 0x1234_5678,
            trace: if verbose { Some(Vec::new()) } else { None },
            coverage: HashSet::new(),
            violations: Vec::new(),
            harness_error: None,
            pair: pair_cfg,
            record_writes,
            event_writes: Vec::new(),
            snapshot: None,
            pair_answer: None,
            schedule: None,
            pair_done: false,
            last_reorg_at: None,
            pair_span: plan_span,
            stop: false,
            writes_seen: 0,
            last_event_kind: String::new(),
            taint: None,
        };
        for i in 0..sim.peers.len() {
            sim.refresh_view(i, false);
        }
        let n = sim.plan.actions.len();
        for i in 0..n {
            let at = sim.plan.actions[i].at;
            sim.push(at, Ev::Act(i));
        }
        sim
    }

    pub fn stat(&mut self, k: &str) {
        *self.stats.entry(k.to_string()).or_insert(0) += 1;
    }
    pub fn stat_add(&mut self, k: &str, n: u64) {
        *self.stats.entry(k.to_string()).or_insert(0) += n;
    }

    pub fn push(&mut self, at: u64, ev: Ev) {
        self.seq += 1;
        let at = at.max(self.now);
        self.queue.push(QItem {
            at,
            seq: self.seq,
            ev,
        });
    }

    pub fn log(&mut self, line: String) {
        // fold into the trace hash
        let mut h = self.trace_hash;
        for b in line.as_bytes() {
            h ^= *b as u64;
            h = h.wrapping_mul(0x100000001b3);
        }
        self.trace_hash = h;
        if let Some(t) = self.trace.as_mut() {
            t.push(format!("[{:>8} #{:<5}] {}", self.now, self.events, line));
        }
    }

    pub fn violate(&mut self, property: &str, clause: &str, detail: String) {
        let v = Violation {
            property: property.to_string(),
            clause: clause.to_string(),
            detail,
            at_event: self.events,
            at_time: self.now,
        };
        if let Some(t) = self.taint.as_ref() {
            let derived = matches!(property, "C03" | "C04" | "C05" | "C06" | "C08" | "C09" | "C12" | "C16");
            let derived = derived || (property == "C08" && t.starts_with("C08/"));
            // a fork that went unnoticed leaves old entries behind, but it does not undo what a
            // proven answer consumed afterwards has written
            let independent = (v.key() == "C16/proven_fetch_answer_left_the_transaction_paired_with_another_block"
                && (t.starts_with("C04/fork_unnoticed") || t.starts_with("C04/fork_switch_without_rollback")))
                // judged from the message and the state right before it: no consequence of anything
                || v.key() == "C09/script_raised_over_a_pending_record_by_a_filters_message_that_does_not_continue";
            if derived && *t != v.key() && !independent {
                self.stat(&format!("suppressed_consequence.{}", property));
                return;
            }
        }
        self.log(format!("VIOLATION {} {}", v.key(), v.detail));
        if !self.violations.iter().any(|x| x.key() == v.key()) {
            self.violations.push(v);
        }
    }

    // ------------------------------------------------------------------ client lifecycle

    pub fn boot_client(&mut self) {
        set_faketime(abs_now(self.now));
        self.incarnation += 1;
        self.net = NetShared::new();
        self.net.install_p2p_control();
        let consensus = self.world.consensus.clone();
        match Client::boot(&self.dir, &consensus, &self.plan.knobs, Arc::clone(&self.net)) {
            Ok(c) => self.client = Some(c),
            Err(u) => {
                if u.message.starts_with("VERIF-CRASH") {
                    // died during first-run initialisation: start again
                    self.stat("fault.crash_before_write");
                    self.stat(&format!(
                        "crash.site.{}",
                        u.message.trim_start_matches("VERIF-CRASH ").trim()
                    ));
                    crate::runner::disarm_crash();
                    self.incarnation += 1;
                    match Client::boot(&self.dir, &consensus, &self.plan.knobs, Arc::clone(&self.net)) {
                        Ok(c) => {
                            drop(c);
                            match Client::boot(&self.dir, &consensus, &self.plan.knobs, Arc::clone(&self.net)) {
                                Ok(c) => self.client = Some(c),
                                Err(u) => {
                                    self.on_unwind("boot", None, u);
                                    return;
                                }
                            }
                        }
                        Err(u) => {
                            self.on_unwind("boot", None, u);
                            return;
                        }
                    }
                } else {
                    self.on_unwind("boot", None, u);
                    return;
                }
            }
        }
        for proto in [
            Proto::Sync,
            Proto::RelayV2,
            Proto::RelayV3,
            Proto::LightClient,
            Proto::Filter,
        ] {
            let r = self.client.as_mut().unwrap().init(proto);
            if let Err(u) = r {
                self.on_unwind("init", None, u);
            }
            self.flush(None);
        }
        let mut o = std::mem::take(&mut self.oracle);
        o.on_boot(self);
        self.oracle = o;
    }

    pub fn shutdown_client(&mut self) {
        self.client = None;
        // every session is gone from the peers' point of view
        let sessions: Vec<usize> = self.sessions.keys().cloned().collect();
        for s in sessions {
            if let Some(p) = self.sessions.remove(&s) {
                self.peers[p].session = None;
                self.peers[p].subscribed = false;
                self.peers[p].relay_open = false;
            }
        }
    }

    /// The process died before a storage write: only the store survives. Reopen it (twice, to
    /// catch "aborts on every start"), let the peers reconnect and carry on without faults.
    fn crash_restart(&mut self, msg: &str) {
        self.stat("fault.crash_before_write");
        self.stat(&format!("crash.site.{}", msg.trim_start_matches("VERIF-CRASH ").trim()));
        crate::runner::disarm_crash();
        // the interrupted operation may have changed the stored tip already
        self.oracle.prev_tip.clear();
        self.oracle.prev_td = None;
        let connected: Vec<usize> = self
            .peers
            .iter()
            .filter(|p| p.session.is_some())
            .map(|p| p.idx)
            .collect();
        self.net.drain();
        self.shutdown_client();
        self.boot_client();
        if self.stop || self.client.is_none() {
            return;
        }
        // a second start from the same store
        self.shutdown_client();
        self.boot_client();
        if self.stop || self.client.is_none() {
            return;
        }
        let mut o = std::mem::take(&mut self.oracle);
        o.on_crash_restart(self);
        self.oracle = o;
        for p in 0..self.peers.len() {
            // peers that were connected, and peers whose connect action is already due
            let due = connected.contains(&p)
                || self.plan.actions.iter().any(|t| {
                    t.at <= self.now && matches!(t.action, Action::Connect { peer } if peer == p)
                });
            if due {
                let d = 100 + mix(&[self.plan.seed, self.seq, p as u64, 0xc4a5]) % 3000;
                self.push(self.now + d, Ev::Reconnect { peer: p });
            }
        }
    }

    pub fn handle_unwind(&mut self, what: &str, proto: Option<Proto>, u: Unwind) {
        self.on_unwind(what, proto, u)
    }

    fn on_unwind(&mut self, what: &str, proto: Option<Proto>, u: Unwind) {
        self.log(format!("UNWIND in {} {:?}: {} @ {}", what, proto, u.message, u.location));
        if u.message.starts_with("HARNESS") {
            self.harness_error = Some(u.message.clone());
            self.stop = true;
            return;
        }
        if u.message.starts_with("VERIF-CRASH") {
            self.crash_restart(&u.message);
            return;
        }
        let mut o = std::mem::take(&mut self.oracle);
        o.on_unwind(self, what, proto, &u);
        self.oracle = o;
        // the process would be gone: stop the run
        self.stop = true;
    }

    // ------------------------------------------------------------------ views

    pub fn peer_cfg(&self, p: usize) -> ServerCfg {
        let pp = &self.plan.peers[p];
        ServerCfg {
            filters_batch: pp.filters_batch.max(1),
            hashes_batch: pp.hashes_batch.max(1),
            check_points_batch: pp.check_points_batch.max(2),
            check_point_interval: self.plan.knobs.check_point_interval,
            v1: pp.v1,
        }
    }

    /// Recomputes a peer's view from its branch; pushes the new tip if subscribed.
    pub fn refresh_view(&mut self, p: usize, announce: bool) {
        let branch = self.peers[p].branch;
        let tip = self.world.tip_number(branch);
        let lag = self.peers[p].lag;
        // a node whose tip is the (month old) genesis block is in initial block download
        let height = tip.saturating_sub(lag).max(1.min(tip));
        let new_view = View { branch, height };
        let old = self.peers[p].view;
        self.peers[p].view = new_view;
        if announce && old != new_view && self.peers[p].subscribed {
            if let Some(session) = self.peers[p].session {
                let msg = server::lc_msg(server::send_last_state(&self.world, new_view));
                let tag = Tag::honest(Kind::SendLastState);
                self.peer_send(p, session, Proto::LightClient, msg.as_bytes(), tag);
            }
        }
    }

    // ------------------------------------------------------------------ transport

    fn latency(&mut self, p: usize) -> u64 {
        let pp = &self.plan.peers[p];
        let n = self.peers[p].sent;
        self.peers[p].sent += 1;
        let j = if pp.jitter == 0 {
            0
        } else {
            mix(&[self.plan.seed, pp.identity, n, 0x1a7]) % (pp.jitter + 1)
        };
        pp.latency + j
    }

    /// A peer puts a message on the wire towards the client (mutations already applied).
    pub fn peer_send_raw(&mut self, p: usize, session: usize, proto: Proto, data: Bytes, tag: Tag) {
        let lat = self.latency(p);
        // "late duplicate:<ms>": the second copy of an answer, on the wire that much later
        let extra = tag.note.strip_prefix("late duplicate:").and_then(|v| v.parse::<u64>().ok()).unwrap_or(0);
        let mut at = self.now + lat + extra;
        let last = self.peers[p].last_deliver.get(&proto).cloned().unwrap_or(0);
        if at <= last {
            at = last + 1;
        }
        self.peers[p].last_deliver.insert(proto, at);
        let inc = self.incarnation;
        self.push(
            at,
            Ev::ToClient {
                session,
                proto,
                data,
                tag,
                inc,
            },
        );
    }

    /// A peer answers: deviating peers get to mutate / drop / duplicate the honest answer.
    pub fn peer_send(&mut self, p: usize, session: usize, proto: Proto, data: Bytes, tag: Tag) {
        if self.peers[p].lose > 0 {
            self.peers[p].lose -= 1;
            self.stat("fault.answer_lost");
            return;
        }
        let kind = tag.kind;
        let ordinal = {
            let c = self.peers[p].answered.entry(kind).or_insert(0);
            let v = *c;
            *c += 1;
            v
        };
        let specs: Vec<_> = self.plan.peers[p]
            .mutations
            .iter()
            .filter(|m| m.kind == kind.code() && m.ordinal == ordinal)
            .cloned()
            .collect();
        if specs.is_empty() {
            self.peer_send_raw(p, session, proto, data, tag);
        } else {
            let outs = byz::mutate(self, p, proto, &data, &tag, &specs);
            for (proto, bytes, t) in outs {
                self.peer_send_raw(p, session, proto, bytes, t);
            }
        }
    }

    /// Drains what the client did to the network during the last call.
    pub fn flush(&mut self, origin: Option<usize>) {
        let outs = self.net.drain();
        for o in outs {
            match o {
                Out::Send { proto, peer, data } => {
                    let session = peer.value();
                    let proto = match Proto::from_id(proto) {
                        Some(p) => p,
                        None => continue,
                    };
                    let mut o = std::mem::take(&mut self.oracle);
                    o.on_client_send(self, session, proto, &data);
                    self.oracle = o;
                    self.log(format!(
                        "client->s{} {} {}",
                        session,
                        proto.name(),
                        describe(proto, &data)
                    ));
                    if let Some(&p) = self.sessions.get(&session) {
                        let lat = self.latency(p);
                        let inc = self.incarnation;
                        self.push(
                            self.now + lat,
                            Ev::ToPeer {
                                session,
                                proto,
                                data,
                                inc,
                            },
                        );
                    } else {
                        self.stat("send_to_closed_session");
                    }
                }
                Out::Ban {
                    proto: _,
                    peer,
                    dur,
                    reason,
                } => {
                    let session = peer.value();
                    self.log(format!("client BAN s{} {}", session, reason));
                    self.stat("client.ban");
                    let mut o = std::mem::take(&mut self.oracle);
                    o.on_ban(self, session, &reason, origin);
                    self.oracle = o;
                    if let Some(&p) = self.sessions.get(&session) {
                        self.peers[p].banned_until = self.now + dur.as_millis() as u64;
                        let inc = self.incarnation;
                        let d = 1 + mix(&[self.plan.seed, self.seq, 0xba]) % 40;
                        self.push(
                            self.now + d,
                            Ev::SessionClosed {
                                session,
                                inc,
                                by_client: true,
                            },
                        );
                    }
                }
                Out::Disconnect {
                    proto: _,
                    peer,
                    msg,
                } => {
                    let session = peer.value();
                    self.log(format!("client DISCONNECT s{} {}", session, msg));
                    self.stat("client.disconnect");
                    let mut o = std::mem::take(&mut self.oracle);
                    o.on_disconnect(self, session, &msg);
                    self.oracle = o;
                    if self.sessions.contains_key(&session) {
                        let inc = self.incarnation;
                        let d = 1 + mix(&[self.plan.seed, self.seq, 0xd1]) % 40;
                        self.push(
                            self.now + d,
                            Ev::SessionClosed {
                                session,
                                inc,
                                by_client: true,
                            },
                        );
                    }
                }
                Out::SetNotify {
                    proto,
                    interval,
                    token,
                } => {
                    if let Some(proto) = Proto::from_id(proto) {
                        let interval = interval.as_millis() as u64;
                        let inc = self.incarnation;
                        let j = mix(&[self.plan.seed, token, proto as u64, 0x71]) % (interval / 10 + 1);
                        self.push(
                            self.now + interval + j,
                            Ev::Timer {
                                proto,
                                token,
                                interval,
                                inc,
                            },
                        );
                    }
                }
            }
        }
    }

    // ------------------------------------------------------------------ sessions

    pub fn connect_peer(&mut self, p: usize) {
        if self.client.is_none() || self.peers[p].session.is_some() {
            self.stat("connect.skipped");
            return;
        }
        if self.peers[p].banned_until > self.now {
            self.stat("connect.refused_banned");
            return;
        }
        let session = self.next_session;
        self.next_session += 1;
        self.peers[p].session = Some(session);
        self.peers[p].subscribed = false;
        self.peers[p].last_deliver.clear();
        self.sessions.insert(session, p);
        self.net
            .add_peer(PeerIndex::new(session), self.plan.peers[p].identity);
        self.refresh_view(p, false);
        self.log(format!("connect peer{} as s{}", p, session));
        let mut order = [Proto::Sync, Proto::LightClient, Proto::Filter];
        let r = mix(&[self.plan.seed, session as u64, 0xc0]) % 6;
        if r & 1 == 1 {
            order.swap(0, 1);
        }
        if r >= 2 {
            order.swap(1, 2);
        }
        if r >= 4 {
            order.swap(0, 2);
        }
        let mut o = std::mem::take(&mut self.oracle);
        o.on_connect(self, session, p);
        self.oracle = o;
        for proto in order {
            let now = self.now;
            let r = self
                .client
                .as_mut()
                .unwrap()
                .connected(proto, PeerIndex::new(session), now);
            if let Err(u) = r {
                self.on_unwind("connected", Some(proto), u);
                return;
            }
            self.flush(Some(session));
        }
    }

    pub fn close_session(&mut self, session: usize, by_client: bool) {
        let p = match self.sessions.remove(&session) {
            Some(p) => p,
            None => return,
        };
        self.log(format!("session s{} (peer{}) closed", session, p));
        self.peers[p].session = None;
        self.peers[p].subscribed = false;
        self.net.remove_peer(PeerIndex::new(session));
        let mut protos = vec![Proto::LightClient, Proto::Filter, Proto::Sync];
        if self.peers[p].relay_open {
            protos.push(self.relay_proto());
            self.peers[p].relay_open = false;
        }
        let _ = by_client;
        // A protocol-open event that was queued before the session closed is delivered after the
        // peer has left the network's registry (the relay protocol is opened on demand).
        if self.client.is_some()
            && self.plan.flags.iter().any(|f| f == "late_relay_open")
            && protos.len() == 3
            && crate::entropy::mix(&[self.plan.seed, session as u64, 0x1a7e]) % 3 == 0
        {
            self.stat("fault.relay_open_races_with_session_close");
            self.log(format!("relay protocol of s{} opens while the session is closing", session));
            for proto in [Proto::RelayV2, Proto::RelayV3] {
                let now = self.now;
                let r = self.client.as_mut().unwrap().connected(proto, PeerIndex::new(session), now);
                if let Err(u) = r {
                    self.on_unwind("connected", Some(proto), u);
                    return;
                }
                self.flush(Some(session));
            }
        }
        if self.client.is_some() {
            for proto in protos {
                let now = self.now;
                let r = self
                    .client
                    .as_mut()
                    .unwrap()
                    .disconnected(proto, PeerIndex::new(session), now);
                if let Err(u) = r {
                    self.on_unwind("disconnected", Some(proto), u);
                    return;
                }
                self.flush(Some(session));
            }
        }
        let mut o = std::mem::take(&mut self.oracle);
        o.on_session_closed(self, session, p);
        self.oracle = o;
    }

    pub fn relay_proto(&self) -> Proto {
        // the hard-fork switch of the generated consensus never enables ckb2023
        Proto::RelayV2
    }

    // ------------------------------------------------------------------ the loop

    pub fn run(&mut self) {
        set_faketime(abs_now(self.now));
        if self.client.is_none() && self.harness_error.is_none() && !self.stop {
            self.boot_client();
        }
        while !self.stop {
            let item = match self.queue.pop() {
                Some(i) => i,
                None => break,
            };
            if item.at > self.plan.max_time || self.events >= self.plan.max_events {
                break;
            }
            self.now = item.at;
            set_faketime(abs_now(self.now));
            self.events += 1;
            if self.pair.as_ref().map(|p| p.0 == self.events).unwrap_or(false) {
                self.run_pair_event(item.ev);
                self.stop = true;
                self.pair_done = true;
                break;
            }
            let w0 = crate::runner::bounds_now();
            if self.record_writes {
                // C17: the boundaries of this event are named with the state they are met in, so
                // that the site-stratified choice of the pause boundary also finds the rare
                // combinations (e.g. the filter timer's lock while a stored matched-blocks record
                // is not yet recovered into the empty in-memory map)
                let ctx = match self.client.as_ref() {
                    Some(c) => {
                        let stored = c.storage.get_earliest_matched_blocks().is_some();
                        let in_memory = !c.peers.matched_blocks().read().unwrap_or_else(|e| e.into_inner()).is_empty();
                        let fetching = !c.peers.get_headers_to_fetch().is_empty() || !c.peers.get_txs_to_fetch().is_empty();
                        format!(
                            "[{}{}{}]",
                            if stored { "R" } else { "-" },
                            if in_memory { "M" } else { "-" },
                            if fetching { "F" } else { "-" }
                        )
                    }
                    None => String::new(),
                };
                crate::runner::set_bound_context(ctx);
            }
            self.dispatch(item.ev);
            if self.record_writes {
                let w1 = crate::runner::bounds_now();
                if w1 > w0 && self.client.is_some() {
                    self.event_writes.push((self.events, w0 + 1, w1, self.last_event_kind.clone()));
                }
            }
            if self.stop {
                break;
            }
            let mut o = std::mem::take(&mut self.oracle);
            o.after_event(self);
            self.oracle = o;
        }
        if self.harness_error.is_none() && !self.pair_done {
            let mut o = std::mem::take(&mut self.oracle);
            o.at_end(self);
            self.oracle = o;
        }
    }

    // ------------------------------------------------------------------ C17

    /// The JSON-RPC request of paired operation `op`, built from the world.
    fn pair_request(&self, op: u64) -> String {
        use crate::refidx::{resolve_script, script_json};
        use crate::plan::ScriptRef;
        let nl = self.plan.chain.n_locks.max(1);
        let lock = |i: usize| resolve_script(&self.world, &ScriptRef::Lock(i % nl)).0;
        let status = |i: usize, n: u64| {
            serde_json::json!({"script": script_json(&lock(i)), "script_type": "lock", "block_number": format!("{:#x}", n)})
        };
        // the same request in all three executions: numbers come from the plan, not from the state
        let n1 = self.plan.initial_blocks / 3;
        let n2 = self.plan.initial_blocks / 2 + 1;
        let search = |i: usize| serde_json::json!({"script": script_json(&lock(i)), "script_type": "lock"});
        let (method, params) = match op {
            0 => ("set_scripts", serde_json::json!([[status(0, 0)], "all"])),
            1 => ("set_scripts", serde_json::json!([[status(1, n1)], "partial"])),
            2 => ("set_scripts", serde_json::json!([[status(0, 0)], "delete"])),
            3 => ("set_scripts", serde_json::json!([[], "all"])),
            4 => ("get_scripts", serde_json::json!([])),
            5 => ("get_cells_capacity", serde_json::json!([search(0)])),
            6 => ("get_cells", serde_json::json!([search(0), "asc", "0x64"])),
            8 => ("get_transactions", serde_json::json!([search(0), "asc", "0x64"])),
            _ => ("set_scripts", serde_json::json!([[status(0, n2), status(1, 0)], "partial"])),
        };
        serde_json::json!({"jsonrpc": "2.0", "id": 1, "method": method, "params": params}).to_string()
    }

    /// The honest peer message of handler operation `op` (9..12), built from the state as it
    /// is now: (protocol, session, bytes).
    fn pair_message(&self, op: u64) -> Option<(Proto, usize, Bytes)> {
        let c = self.client.as_ref()?;
        // the first connected peer (in peer order) that the client has proven, else any connected
        let mut cands: Vec<(usize, usize)> = self
            .peers
            .iter()
            .filter_map(|p| p.session.map(|s| (p.idx, s)))
            .collect();
        cands.sort();
        let proven: Vec<(usize, usize)> = cands
            .iter()
            .cloned()
            .filter(|(_, s)| {
                c.peers
                    .get_state(&PeerIndex::new(*s))
                    .map(|st| st.get_prove_state().is_some())
                    .unwrap_or(false)
            })
            .collect();
        match op {
            9 => {
                let (p, s) = *cands.first()?;
                let m = crate::server::lc_msg(crate::server::send_last_state(&self.world, self.peers[p].view));
                Some((Proto::LightClient, s, m.as_bytes()))
            }
            10 => {
                let (p, s) = *proven.first()?;
                let mf = c.storage.get_min_filtered_block_number();
                let m = crate::server::block_filters(&self.world, self.peers[p].view, &self.peer_cfg(p), mf + 1)?;
                Some((Proto::Filter, s, crate::server::filter_msg(m).as_bytes()))
            }
            11 => {
                let (_, s) = *proven.first()?;
                let map = c.peers.matched_blocks().read().unwrap_or_else(|e| e.into_inner());
                let mut wanted: Vec<packed::Byte32> = map
                    .iter()
                    .filter(|(_, (proved, block))| *proved && block.is_none())
                    .map(|(h, _)| h.pack())
                    .collect();
                wanted.sort_by(|a, b| a.as_slice().cmp(b.as_slice()));
                let h = wanted.first()?.clone();
                let m = crate::server::send_block(&self.world, &h)?;
                Some((Proto::Sync, s, m.as_bytes()))
            }
            12 => {
                for (p, s) in cands.iter() {
                    if let Some(st) = c.peers.get_state(&PeerIndex::new(*s)) {
                        if let Some(req) = st.get_prove_request() {
                            if let crate::server::ProofAnswer::Reply(m, _) =
                                crate::server::last_state_proof(&self.world, self.peers[*p].view, req.get_content())
                            {
                                return Some((Proto::LightClient, *s, crate::server::lc_msg(m).as_bytes()));
                            }
                        }
                    }
                }
                None
            }
            _ => None,
        }
    }

    fn pair_job(&self, op: u64) -> Option<crate::runner::PairJob> {
        let c = self.client.as_ref()?;
        let seed = crate::entropy::mix(&[self.plan.seed, 0xc17, op]);
        if op >= 9 {
            let (proto, session, data) = self.pair_message(op)?;
            let handler = c.twin(proto, &self.world.consensus)?;
            return Some(crate::runner::PairJob {
                io: c.io.clone(),
                request: String::new(),
                seed,
                deliver: Some(crate::runner::PairDeliver {
                    handler,
                    nc: c.ctx_for(proto),
                    peer: PeerIndex::new(session),
                    data,
                }),
                then: None,
            });
        }
        Some(crate::runner::PairJob {
            io: c.io.clone(),
            request: self.pair_request(op),
            seed,
            deliver: None,
            then: None,
        })
    }

    /// Randomized runs: operation `op`, or - when no such peer message exists in this state, or
    /// its protocol is already taken by another operation of the case - the RPC call `op % 9`.
    fn pair_job_or_rpc(&mut self, op: u64, taken: &[Option<ckb_network::ProtocolId>]) -> crate::runner::PairJob {
        if let Some(j) = self.pair_job(op) {
            let proto = j.deliver.as_ref().map(|d| d.nc.protocol_id());
            if proto.is_none() || !taken.contains(&proto) {
                return j;
            }
        }
        self.stat("probe.c17.rand.handler_replaced_by_rpc_call");
        self.pair_job(op % 9).expect("an RPC job can always be built")
    }

    fn run_pair_job_alone(&mut self, job: crate::runner::PairJob) -> Option<String> {
        let mut rx = crate::runner::spawn_pair(job);
        match rx.recv_timeout(std::time::Duration::from_secs(20)) {
            Ok(r) => Some(r),
            Err(_) => {
                self.harness_error = Some("paired operation alone did not finish".into());
                None
            }
        }
    }

    /// Runs the pair event and up to `extra` further events of the history (no oracles).
    fn dispatch_span(&mut self, ev: Ev, extra: u64) {
        self.dispatch(ev);
        for _ in 0..extra {
            if self.stop || self.client.is_none() {
                break;
            }
            let item = match self.queue.pop() {
                Some(i) => i,
                None => break,
            };
            if item.at > self.plan.max_time {
                break;
            }
            self.now = item.at;
            set_faketime(abs_now(self.now));
            self.events += 1;
            self.dispatch(item.ev);
        }
    }

    fn run_pair_event(&mut self, ev: Ev) {
        let (_, write, mode, op) = self.pair.clone().unwrap();
        if self.client.is_none() {
            self.harness_error = Some("pair event without a client".into());
            return;
        }
        // B is built from the state before A in every execution, so that it is the same B
        let is_rand = self.plan.flags.iter().any(|x| x.starts_with("pair_rand="));
        let a_proto_id = match &ev {
            Ev::ToClient { proto, .. } | Ev::Timer { proto, .. } => Some(crate::client::Proto::support(*proto).protocol_id()),
            _ => None,
        };
        let first = if is_rand { Some(self.pair_job_or_rpc(op, &[a_proto_id])) } else { self.pair_job(op) };
        let job = match first {
            Some(j) => j,
            None => {
                // no such message can be sent in this state: nothing to pair
                self.stat("probe.c17.no_such_message_now");
                self.dispatch(ev);
                self.snapshot = None;
                return;
            }
        };
        // two handlers of one protocol never run at the same time
        if let (Some(d), Ev::ToClient { proto, .. } | Ev::Timer { proto, .. }) = (job.deliver.as_ref(), &ev) {
            let b_proto = d.nc.protocol_id();
            if b_proto == crate::client::Proto::support(*proto).protocol_id() {
                self.stat("probe.c17.same_protocol_not_paired");
                self.dispatch(ev);
                self.snapshot = None;
                return;
            }
        }
        if mode.starts_with("serial:") || mode == "triple" || mode == "rand" {
            self.run_triple_event(ev, write, &mode, job);
            self.snapshot = self.c17_snapshot();
            return;
        }
        match mode.as_str() {
            "before" => {
                let r = self.run_pair_job_alone(job);
                self.flush(None);
                self.dispatch(ev);
                self.pair_answer = r.map(|r| (false, r));
            }
            "after" => {
                self.dispatch(ev);
                if self.client.is_none() {
                    return;
                }
                let r = self.run_pair_job_alone(job);
                self.flush(None);
                self.pair_answer = r.map(|r| (false, r));
            }
            "after_span" => {
                self.dispatch_span(ev, self.pair_span);
                if self.client.is_none() {
                    return;
                }
                let r = self.run_pair_job_alone(job);
                self.pair_answer = r.map(|r| (false, r));
            }
            "reader_mid" => {
                // the reader is parked at one of its iteration points; the writer (this event)
                // runs to completion; the reader resumes
                let park_at = 1 + write % 3;
                let (erx, rtx, handle) = crate::runner::spawn_parked_reader(job, park_at);
                let mut answer: Option<String> = None;
                let mut parked = false;
                match erx.recv_timeout(std::time::Duration::from_secs(20)) {
                    Ok(crate::runner::ReaderEvent::Parked) => parked = true,
                    Ok(crate::runner::ReaderEvent::Done(r)) => answer = Some(r),
                    Err(_) => {
                        self.harness_error = Some("reader neither parked nor finished".into());
                        return;
                    }
                }
                // a watchdog releases the reader if the writer cannot finish while it is parked
                let (wtx, wrx) = std::sync::mpsc::channel::<()>();
                let rtx2 = rtx.clone();
                let stuck = std::sync::Arc::new(std::sync::atomic::AtomicBool::new(false));
                let stuck2 = stuck.clone();
                let watchdog = std::thread::spawn(move || {
                    if wrx.recv_timeout(std::time::Duration::from_secs(15)).is_err() {
                        stuck2.store(true, std::sync::atomic::Ordering::SeqCst);
                        let _ = rtx2.send(());
                    }
                });
                self.dispatch_span(ev, self.pair_span);
                let _ = wtx.send(());
                let _ = watchdog.join();
                if stuck.load(std::sync::atomic::Ordering::SeqCst) {
                    self.violate("C17", "deadlock", format!("{} could not finish while reader {} was parked inside its query", self.last_event_kind, op));
                }
                if parked {
                    let _ = rtx.send(());
                    match erx.recv_timeout(std::time::Duration::from_secs(20)) {
                        Ok(crate::runner::ReaderEvent::Done(r)) => answer = Some(r),
                        _ => {
                            self.violate("C17", "deadlock", format!("reader {} never finished after {} returned", op, self.last_event_kind));
                        }
                    }
                }
                let _ = handle.join();
                self.pair_answer = answer.map(|r| (parked, r));
            }
            _ => {
                crate::runner::arm_pause(write, job);
                self.dispatch(ev);
                if crate::runner::take_paused_at_lock_intent() {
                    self.stat("probe.c17.paused_before_taking_the_lock");
                }
                match crate::runner::join_pair() {
                    Ok(a) => self.pair_answer = Some(a),
                    Err(e) if e == "DEADLOCK" => {
                        self.violate("C17", "deadlock", format!("the paired operation {} never finished after {} returned", op, self.last_event_kind));
                    }
                    Err(e) => self.harness_error = Some(e),
                }
            }
        }
        self.snapshot = self.c17_snapshot();
    }

    /// Three operations: A (the history's event), B and C (built from the state before A).
    fn run_triple_event(&mut self, ev: Ev, write: u64, mode: &str, job_b: crate::runner::PairJob) {
        let flags = self.plan.flags.clone();
        let f = move |k: &str| flags.iter().find_map(|x| x.strip_prefix(k).and_then(|v| v.parse::<u64>().ok()));
        let op2 = f("pair_op2=").unwrap_or(0);
        let park2 = f("pair_park2=").unwrap_or(1);
        let a_proto = match &ev {
            Ev::ToClient { proto, .. } | Ev::Timer { proto, .. } => Some(crate::client::Proto::support(*proto).protocol_id()),
            _ => None,
        };
        let is_rand = self.plan.flags.iter().any(|x| x.starts_with("pair_rand="));
        let b_proto0 = job_b.deliver.as_ref().map(|d| d.nc.protocol_id());
        let second = if is_rand { Some(self.pair_job_or_rpc(op2, &[a_proto, b_proto0])) } else { self.pair_job(op2) };
        let job_c = match second {
            Some(j) => j,
            None => {
                self.stat("probe.c17.no_such_message_now");
                self.dispatch(ev);
                self.snapshot = None;
                return;
            }
        };
        // handlers of one protocol never run at the same time
        let b_proto = job_b.deliver.as_ref().map(|d| d.nc.protocol_id());
        let c_proto = job_c.deliver.as_ref().map(|d| d.nc.protocol_id());
        if (c_proto.is_some() && (c_proto == a_proto || c_proto == b_proto)) || (b_proto.is_some() && b_proto == a_proto) {
            self.stat("probe.c17.same_protocol_not_paired");
            self.dispatch(ev);
            self.snapshot = None;
            return;
        }
        if let Some(order) = mode.strip_prefix("serial:") {
            let mut parts = order.split('|');
            let before: Vec<char> = parts.next().unwrap_or("").chars().collect();
            let after: Vec<char> = parts.next().unwrap_or("").chars().collect();
            let mut jb = Some(job_b);
            let mut jc = Some(job_c);
            for ch in before {
                let j = if ch == 'B' { jb.take() } else { jc.take() };
                if let Some(j) = j {
                    let _ = self.run_pair_job_alone(j);
                    self.flush(None);
                }
            }
            self.dispatch(ev);
            if self.client.is_none() {
                return;
            }
            for ch in after {
                let j = if ch == 'B' { jb.take() } else { jc.take() };
                if let Some(j) = j {
                    let _ = self.run_pair_job_alone(j);
                    self.flush(None);
                }
            }
            return;
        }
        if mode == "rand" {
            // a seeded scheduler releases one thread at a time; every storage write, lock intent
            // and query iteration of every thread is a potential parking point
            let rseed = crate::entropy::mix(&[self.plan.seed, 0x4a17, f("pair_rand=").unwrap_or(0)]);
            let mut jobs = vec![job_b, job_c];
            if let Some(op3) = f("pair_op3=") {
                // a fourth thread: a reader (its answer is not judged here; it takes part in the
                // locking and must finish)
                let op3 = [5u64, 6, 8, 4][(op3 % 4) as usize];
                if let Some(j) = self.pair_job(op3) {
                    jobs.push(j);
                }
            }
            let n = jobs.len() + 1;
            let one_in = 1 + rseed % 3;
            crate::sched::begin(n, rseed, one_in, 8);
            let mut rxs: Vec<crate::runner::PairRx> = Vec::new();
            for (i, j) in jobs.into_iter().enumerate() {
                rxs.push(crate::runner::spawn_sched(j, i + 1));
            }
            let controller = std::thread::spawn(move || crate::sched::control(n, rseed));
            crate::sched::thread_start(0);
            self.dispatch(ev);
            crate::sched::thread_done();
            let report = controller.join().ok();
            let mut hung = false;
            for rx in rxs.iter_mut() {
                if rx.recv_timeout(std::time::Duration::from_secs(if report.as_ref().map(|r| r.deadlock).unwrap_or(true) { 1 } else { 20 })).is_err() {
                    hung = true;
                }
            }
            crate::sched::end();
            match report {
                Some(r) => {
                    let names = ["A", "B", "C", "D"];
                    let text: Vec<String> = r.schedule.iter().map(|(t, at)| format!("{}@{}", names[*t % 4], at)).collect();
                    self.stat_add("c17.rand.scheduling_decisions", r.schedule.len() as u64);
                    self.stat_add("c17.rand.released_thread_seen_blocked", r.blocked_seen);
                    self.stat(&format!("c17.rand.threads_{}", n));
                    // how often the scheduler switched to another thread than the one released before
                    let switches = r.schedule.windows(2).filter(|w| w[0].0 != w[1].0).count() as u64;
                    self.stat_add("c17.rand.context_switches", switches);
                    self.schedule = Some(text.join(" "));
                    if r.deadlock || hung {
                        self.violate(
                            "C17",
                            "deadlock",
                            format!("randomized run with {} threads: nobody can proceed after the schedule {}", n, text.join(" ")),
                        );
                    }
                }
                None => self.harness_error = Some("the scheduler thread died".into()),
            }
            self.flush(None);
            return;
        }
        let mut job_b = job_b;
        job_b.then = Some((park2, Box::new(job_c)));
        crate::runner::arm_pause(write, job_b);
        self.dispatch(ev);
        if crate::runner::take_paused_at_lock_intent() {
            self.stat("probe.c17.paused_before_taking_the_lock");
        }
        match crate::runner::join_pair() {
            Ok(a) => self.pair_answer = Some(a),
            Err(e) if e == "DEADLOCK" => {
                self.violate("C17", "deadlock", format!("the second operation never finished after {} returned (three threads)", self.last_event_kind));
            }
            Err(e) => self.harness_error = Some(e),
        }
        match crate::runner::join_third() {
            crate::runner::ThirdOutcome::Ran(0, _) => self.stat("probe.c17.third_ran_inside_second"),
            crate::runner::ThirdOutcome::Ran(_, _) => self.stat("probe.c17.third_blocked"),
            crate::runner::ThirdOutcome::NotStarted(j) => {
                // the second operation never reached its parking boundary (it is shorter, or it
                // waited for A): the third one runs last
                self.stat("probe.c17.third_ran_last");
                if self.client.is_some() {
                    let _ = self.run_pair_job_alone(j);
                }
            }
            crate::runner::ThirdOutcome::Deadlock => {
                self.violate("C17", "deadlock", format!("the third operation never finished after {} and the second operation returned", self.last_event_kind));
            }
            crate::runner::ThirdOutcome::None => {}
        }
        self.flush(None);
    }

    /// Everything the two operations can have changed: the raw keyspace, the in-memory
    /// matched-blocks map, and the filter progress the peers structure remembers.
    fn c17_snapshot(&self) -> Option<String> {
        use rocksdb::ops::Iterate;
        use rocksdb::{Direction, IteratorMode};
        let c = self.client.as_ref()?;
        let mut h: u64 = 0xcbf29ce484222325;
        let mut n = 0u64;
        let mut per_prefix: std::collections::BTreeMap<u8, u64> = Default::default();
        let mode = IteratorMode::From(&[0u8][..], Direction::Forward);
        for (k, v) in c.storage.db.iterator(mode) {
            for b in k.iter().chain([0xffu8].iter()).chain(v.iter()) {
                h ^= *b as u64;
                h = h.wrapping_mul(0x100000001b3);
            }
            n += 1;
            *per_prefix.entry(k[0]).or_insert(0) += 1;
        }
        let mut scripts: Vec<String> = c
            .storage
            .get_filter_scripts()
            .iter()
            .map(|s| format!("{}:{}@{}", matches!(s.script_type, crate::storage::ScriptType::Lock), s.script.args().raw_data().iter().map(|b| format!("{:02x}", b)).collect::<String>(), s.block_number))
            .collect();
        scripts.sort();
        let mut matched: Vec<String> = c
            .peers
            .matched_blocks()
            .read()
            .unwrap_or_else(|e| e.into_inner())
            .iter()
            .map(|(h, (proved, block))| format!("{:#x}:{}:{}", h, proved, block.is_some()))
            .collect();
        matched.sort();
        Some(format!(
            "keys={} hash={:016x} per_prefix={:?} scripts={:?} min_filtered={} earliest_record={:?} matched_in_memory={:?}",
            n,
            h,
            per_prefix,
            scripts,
            c.storage.get_min_filtered_block_number(),
            c.storage.get_earliest_matched_blocks().map(|(s, n, b)| (s, n, b.len())),
            matched
        ))
    }

    fn dispatch(&mut self, ev: Ev) {
        match ev {
            Ev::ToClient {
                session,
                proto,
                data,
                tag,
                inc,
            } => {
                if inc != self.incarnation || !self.sessions.contains_key(&session) {
                    self.stat("dropped.to_client_stale");
                    return;
                }
                self.last_event_kind = format!("recv.{}", tag.kind.name());
                self.log(format!(
                    "s{}->client {} {}{} {}",
                    session,
                    proto.name(),
                    describe(proto, &data),
                    if tag.honest { "" } else { " [MUT]" },
                    tag.note
                ));
                self.stat(&format!("deliver.{}", tag.kind.name()));
                let mut o = std::mem::take(&mut self.oracle);
                o.before_deliver(self, session, proto, &data, &tag);
                self.oracle = o;
                let now = self.now;
                let r = self.client.as_mut().unwrap().received(
                    proto,
                    PeerIndex::new(session),
                    data.clone(),
                    now,
                );
                if let Err(u) = r {
                    let mut o = std::mem::take(&mut self.oracle);
                    o.note_unwind_context(session, proto, &data, &tag);
                    self.oracle = o;
                    self.on_unwind("received", Some(proto), u);
                    return;
                }
                self.flush(Some(session));
                let mut o = std::mem::take(&mut self.oracle);
                o.after_deliver(self, session, proto, &data, &tag);
                self.oracle = o;
            }
            Ev::ToPeer {
                session,
                proto,
                data,
                inc,
            } => {
                if inc != self.incarnation {
                    return;
                }
                let p = match self.sessions.get(&session) {
                    Some(p) => *p,
                    None => {
                        self.stat("dropped.to_peer_closed");
                        return;
                    }
                };
                if self.peers[p].stalled_until > self.now {
                    let at = self.peers[p].stalled_until;
                    self.stat("fault.request_delayed_by_stall");
                    self.push(
                        at,
                        Ev::ToPeer {
                            session,
                            proto,
                            data,
                            inc,
                        },
                    );
                    return;
                }
                self.last_event_kind = "peer".into();
                self.peer_handle(p, session, proto, data);
            }
            Ev::Timer {
                proto,
                token,
                interval,
                inc,
            } => {
                if inc != self.incarnation || self.client.is_none() {
                    return;
                }
                self.last_event_kind = format!("timer.{}.{}", proto.name(), token);
                self.log(format!("timer {} {}", proto.name(), token));
                let mut o = std::mem::take(&mut self.oracle);
                o.before_timer(self, proto, token);
                self.oracle = o;
                let now = self.now;
                let r = self.client.as_mut().unwrap().notify(proto, token, now);
                if let Err(u) = r {
                    self.on_unwind("notify", Some(proto), u);
                    return;
                }
                self.flush(None);
                let mut o = std::mem::take(&mut self.oracle);
                o.after_timer(self, proto, token);
                self.oracle = o;
                let j = mix(&[self.plan.seed, self.seq, 0x71]) % (interval / 20 + 1);
                self.push(
                    self.now + interval + j,
                    Ev::Timer {
                        proto,
                        token,
                        interval,
                        inc,
                    },
                );
            }
            Ev::SessionClosed {
                session,
                inc,
                by_client,
            } => {
                if inc != self.incarnation {
                    return;
                }
                self.last_event_kind = "session_closed".into();
                let p = self.sessions.get(&session).cloned();
                self.close_session(session, by_client);
                // the network layer finds the peer again (after a ban has expired)
                if let (Some(p), true, false) = (p, by_client, self.plan.has_flag("no_reconnect")) {
                    let d = 5_000 + mix(&[self.plan.seed, self.seq, 0x4ec]) % 25_000;
                    let at = if self.peers[p].banned_until > self.now {
                        self.peers[p].banned_until + d
                    } else {
                        self.now + d
                    };
                    self.push(at, Ev::Reconnect { peer: p });
                }
            }
            Ev::Reconnect { peer } => {
                self.last_event_kind = "connect".into();
                self.connect_peer(peer);
            }
            Ev::Act(i) => {
                let action = self.plan.actions[i].action.clone();
                self.act(action);
            }
        }
    }

    fn act(&mut self, action: Action) {
        self.log(format!("action {:?}", action));
        match action {
            Action::Mine { branch, n } => {
                self.last_event_kind = "mine".into();
                if branch >= self.world.branches.len() {
                    return;
                }
                for _ in 0..n {
                    self.world.mine(branch, abs_now(self.now));
                }
                self.stat_add("world.mined", n);
                for p in 0..self.peers.len() {
                    if self.peers[p].branch == branch {
                        self.refresh_view(p, true);
                    }
                }
            }
            Action::Fork { src, back, n } => {
                self.last_event_kind = "fork".into();
                if src >= self.world.branches.len() {
                    return;
                }
                let tip = self.world.tip_number(src);
                let at = tip.saturating_sub(back);
                let tag = self.world.branches.len() as u64;
                let nb = self.world.fork(src, at, tag);
                for _ in 0..n {
                    self.world.mine(nb, abs_now(self.now));
                }
                // honest nodes only switch to a heavier chain
                let mut extra = 0;
                while self.world.td(nb, self.world.tip_number(nb)) <= self.world.td(src, tip) && extra < 500 {
                    self.world.mine(nb, abs_now(self.now));
                    extra += 1;
                }
                self.stat("world.fork");
                self.last_reorg_at = Some(self.now);
            }
            Action::SideFork { src, back, n } => {
                self.last_event_kind = "sidefork".into();
                if src >= self.world.branches.len() {
                    return;
                }
                let tip = self.world.tip_number(src);
                let at = tip.saturating_sub(back.max(1));
                let tag = self.world.branches.len() as u64;
                let nb = self.world.fork(src, at, tag);
                for _ in 0..n.min(back.max(1)) {
                    self.world.mine(nb, abs_now(self.now));
                }
                self.stat("world.side_fork");
            }
            Action::ForgeFork { src, back, n, forged, kind, salt } => {
                self.last_event_kind = "forgefork".into();
                if src >= self.world.branches.len() {
                    return;
                }
                let tip = self.world.tip_number(src);
                let at = tip.saturating_sub(back.max(1));
                let tag = self.world.branches.len() as u64;
                let nb = self.world.fork(src, at, tag);
                let n = n.max(1);
                // kinds 0..2: compact target of the last blocks; kinds 3..6: the length declared
                // by the first block of the next epoch on the branch
                let k = kind % 7;
                if k >= 3 {
                    self.world.forge_epoch = Some((nb, k - 3, salt));
                }
                for i in 0..n {
                    if k < 3 && i + forged.max(1) >= n {
                        self.world.forge_next = Some((k, salt.wrapping_add(i)));
                    }
                    self.world.mine(nb, abs_now(self.now));
                }
                self.world.forge_epoch = None;
                self.stat("world.forged_branch");
                if self.world.branches[nb].forged {
                    self.stat(&format!("fault.byz.forged_chain.kind{}", k));
                }
            }
            Action::SwitchBranch { peer, branch } => {
                self.last_event_kind = "switch".into();
                if peer >= self.peers.len() || branch >= self.world.branches.len() {
                    return;
                }
                self.peers[peer].branch = branch;
                self.stat("world.peer_switch_branch");
                self.last_reorg_at = Some(self.now);
                self.refresh_view(peer, true);
            }
            Action::Connect { peer } => {
                self.last_event_kind = "connect".into();
                if peer < self.peers.len() {
                    self.connect_peer(peer);
                }
            }
            Action::Disconnect { peer } => {
                self.last_event_kind = "disconnect".into();
                if peer < self.peers.len() {
                    if let Some(s) = self.peers[peer].session {
                        self.stat("fault.peer_disconnect");
                        self.close_session(s, false);
                    }
                }
            }
            Action::SetLag { peer, lag } => {
                self.last_event_kind = "setlag".into();
                if peer < self.peers.len() {
                    self.peers[peer].lag = lag;
                    self.refresh_view(peer, true);
                }
            }
            Action::Stall { peer, ms } => {
                if peer < self.peers.len() {
                    self.stat("fault.peer_stall");
                    self.peers[peer].stalled_until = self.now + ms;
                    let mut o = std::mem::take(&mut self.oracle);
                    o.on_fault(self, "stall", Some(peer));
                    self.oracle = o;
                }
            }
            Action::LoseAnswers { peer, n } => {
                if peer < self.peers.len() {
                    self.peers[peer].lose += n;
                    let mut o = std::mem::take(&mut self.oracle);
                    o.on_fault(self, "lose", Some(peer));
                    self.oracle = o;
                }
            }
            Action::Restart => {
                self.last_event_kind = "restart".into();
                self.stat("fault.client_restart");
                let connected: Vec<usize> = self
                    .peers
                    .iter()
                    .filter(|p| p.session.is_some())
                    .map(|p| p.idx)
                    .collect();
                self.shutdown_client();
                self.boot_client();
                for p in connected {
                    let d = 100 + mix(&[self.plan.seed, self.seq, p as u64]) % 3000;
                    self.push(self.now + d, Ev::Reconnect { peer: p });
                }
            }
            Action::ClockJump { ms } => {
                self.stat("fault.clock_jump");
                // the client process did not run for `ms`: everything queued for it arrives late
                self.now += ms;
                set_faketime(abs_now(self.now));
                let mut o = std::mem::take(&mut self.oracle);
                o.on_fault(self, "clock_jump", None);
                self.oracle = o;
            }
            Action::ClockSkew { ms } => {
                self.last_event_kind = "clock_skew".into();
                self.stat(if ms < 0 { "fault.clock_stepped_backwards" } else { "fault.clock_stepped_forwards" });
                CLOCK_SKEW.fetch_add(ms, std::sync::atomic::Ordering::SeqCst);
                set_faketime(abs_now(self.now));
                let mut o = std::mem::take(&mut self.oracle);
                o.on_fault(self, "clock_skew", None);
                self.oracle = o;
            }
            Action::User(op) => {
                self.last_event_kind = format!("user.{}", user_op_name(&op));
                crate::user::execute(self, &op);
            }
            Action::RelayOpen { peer } => {
                self.last_event_kind = "relay_open".into();
                crate::user::relay_open(self, peer);
            }
            Action::RelayClose { peer } => {
                self.last_event_kind = "relay_close".into();
                crate::user::relay_close(self, peer);
            }
            Action::RelayGetTxs { peer } => {
                self.last_event_kind = "relay_get".into();
                crate::user::relay_get_txs(self, peer);
            }
            Action::Inject { peer, spec } => {
                self.last_event_kind = "inject".into();
                if peer < self.peers.len() {
                    if let Some(session) = self.peers[peer].session {
                        let outs = byz::inject(self, peer, &spec);
                        for (proto, bytes, tag) in outs {
                            self.stat("fault.injected_message");
                            self.peer_send_raw(peer, session, proto, bytes, tag);
                        }
                    }
                }
            }
        }
    }

    // ------------------------------------------------------------------ the full node actor

    fn peer_handle(&mut self, p: usize, session: usize, proto: Proto, data: Bytes) {
        let view = self.peers[p].view;
        let cfg = self.peer_cfg(p);
        match proto {
            Proto::LightClient => {
                let msg = match packed::LightClientMessageReader::from_compatible_slice(&data) {
                    Ok(m) => m.to_enum(),
                    Err(_) => return,
                };
                match msg {
                    packed::LightClientMessageUnionReader::GetLastState(r) => {
                        let sub: bool = r.subscribe().unpack();
                        self.peers[p].subscribed = sub;
                        let m = server::lc_msg(server::send_last_state(&self.world, view));
                        let mut tag = Tag::honest(Kind::SendLastState);
                        tag.request = Some(data.clone());
                        self.peer_send(p, session, proto, m.as_bytes(), tag);
                    }
                    packed::LightClientMessageUnionReader::GetLastStateProof(r) => {
                        let req = r.to_entity();
                        if let Some((m, tag)) = byz::crafted_proof_answer(self, p, &req) {
                            self.stat("fault.crafted_proof_answer");
                            self.peer_send_raw(p, session, proto, m.as_bytes(), tag);
                            return;
                        }
                        match server::last_state_proof(&self.world, view, &req) {
                            ProofAnswer::Silent(why) => {
                                self.log(format!("peer{} stays silent: {}", p, why));
                                self.stat("server.silent_proof");
                                let mut o = std::mem::take(&mut self.oracle);
                                o.on_server_silent(self, session, "GetLastStateProof", &why);
                                self.oracle = o;
                            }
                            ProofAnswer::Reply(m, layout) => {
                                if layout.tip_changed {
                                    self.stat("server.proof_tip_changed");
                                } else {
                                    if !layout.reorg.is_empty() {
                                        self.stat("server.proof_with_reorg");
                                    }
                                    if !layout.sampled.is_empty() {
                                        self.stat("server.proof_with_samples");
                                    } else if !req.difficulties().is_empty() {
                                        self.stat("server.proof_all_samples_dropped");
                                    }
                                }
                                let m = server::lc_msg(m);
                                let mut tag = Tag::honest(Kind::SendLastStateProof);
                                tag.request = Some(data.clone());
                                tag.layout = Some(layout);
                                self.peer_send(p, session, proto, m.as_bytes(), tag);
                            }
                        }
                    }
                    packed::LightClientMessageUnionReader::GetBlocksProof(r) => {
                        if let Some((m, tag)) = byz::planted_blocks_proof(self, p, &r.to_entity(), cfg.v1) {
                            self.stat("fault.byz.planted_header_proven");
                            self.peer_send_raw(p, session, proto, m, tag);
                            return;
                        }
                        match server::blocks_proof(&self.world, view, &r.to_entity(), cfg.v1) {
                            LcAnswer::Silent(why) => {
                                self.log(format!("peer{} stays silent: {}", p, why));
                                let mut o = std::mem::take(&mut self.oracle);
                                o.on_server_silent(self, session, "GetBlocksProof", &why);
                                self.oracle = o;
                            }
                            LcAnswer::Reply(m) => {
                                let mut tag = Tag::honest(Kind::SendBlocksProof);
                                tag.request = Some(data.clone());
                                self.peer_send(p, session, proto, m.as_bytes(), tag);
                            }
                        }
                    }
                    packed::LightClientMessageUnionReader::GetTransactionsProof(r) => {
                        match server::transactions_proof(&self.world, view, &r.to_entity(), cfg.v1)
                        {
                            LcAnswer::Silent(why) => {
                                self.log(format!("peer{} stays silent: {}", p, why));
                                let mut o = std::mem::take(&mut self.oracle);
                                o.on_server_silent(self, session, "GetTransactionsProof", &why);
                                self.oracle = o;
                            }
                            LcAnswer::Reply(m) => {
                                if let packed::LightClientMessageUnion::SendTransactionsProof(x) = m.to_enum() {
                                    let asked: Vec<String> = r.tx_hashes().iter().map(|h| format!("{:#x}", h.to_entity())[..10].to_string()).collect();
                                    self.log(format!(
                                        "peer{} (branch {} height {}) answers {:?}: {} blocks, {} missing, against #{}",
                                        p, view.branch, view.height, asked, x.filtered_blocks().len(), x.missing_tx_hashes().len(),
                                        Unpack::<u64>::unpack(&x.last_header().header().raw().number())
                                    ));
                                }
                                let mut tag = Tag::honest(Kind::SendTransactionsProof);
                                tag.request = Some(data.clone());
                                self.peer_send(p, session, proto, m.as_bytes(), tag);
                            }
                        }
                    }
                    _ => {}
                }
            }
            Proto::Filter => {
                let msg = match packed::BlockFilterMessageReader::from_slice(&data) {
                    Ok(m) => m.to_enum(),
                    Err(_) => return,
                };
                match msg {
                    packed::BlockFilterMessageUnionReader::GetBlockFilters(r) => {
                        let start: u64 = r.start_number().unpack();
                        if let Some(m) = server::block_filters(&self.world, view, &cfg, start) {
                            let m = byz::lie_filters(self, p, m);
                            let mut tag = Tag::honest(Kind::BlockFilters);
                            tag.request = Some(data.clone());
                            self.peer_send(p, session, proto, server::filter_msg(m).as_bytes(), tag);
                        }
                    }
                    packed::BlockFilterMessageUnionReader::GetBlockFilterHashes(r) => {
                        let start: u64 = r.start_number().unpack();
                        if let Some(m) = server::block_filter_hashes(&self.world, view, &cfg, start)
                        {
                            let (m, lied) = byz::lie_hashes(self, p, m);
                            let mut tag = Tag::honest(Kind::BlockFilterHashes);
                            tag.honest = !lied;
                            tag.request = Some(data.clone());
                            self.peer_send(p, session, proto, server::filter_msg(m).as_bytes(), tag);
                        }
                    }
                    packed::BlockFilterMessageUnionReader::GetBlockFilterCheckPoints(r) => {
                        let start: u64 = r.start_number().unpack();
                        if let Some(m) =
                            server::block_filter_check_points(&self.world, view, &cfg, start)
                        {
                            let (m, lied) = byz::lie_check_points(self, p, m);
                            let mut tag = Tag::honest(Kind::BlockFilterCheckPoints);
                            tag.honest = !lied;
                            tag.request = Some(data.clone());
                            self.peer_send(p, session, proto, server::filter_msg(m).as_bytes(), tag);
                        }
                    }
                    _ => {}
                }
            }
            Proto::Sync => {
                let msg = match packed::SyncMessageReader::from_compatible_slice(&data) {
                    Ok(m) => m.to_enum(),
                    Err(_) => return,
                };
                if let packed::SyncMessageUnionReader::GetBlocks(r) = msg {
                    for h in r.block_hashes().iter() {
                        if let Some(m) = server::send_block(&self.world, &h.to_entity()) {
                            let mut tag = Tag::honest(Kind::SendBlock);
                            tag.request = Some(data.clone());
                            self.peer_send(p, session, proto, m.as_bytes(), tag);
                        }
                    }
                }
            }
            Proto::RelayV2 | Proto::RelayV3 => {
                crate::user::relay_peer_handle(self, p, session, proto, data);
            }
        }
    }

    // ------------------------------------------------------------------ helpers for oracles

    /// The heaviest tip among the views of connected peers.
    pub fn best_connected_view(&self) -> Option<View> {
        self.peers
            .iter()
            .filter(|p| p.session.is_some())
            .map(|p| p.view)
            .max_by(|a, b| {
                let ta = self.world.td(a.branch, a.height);
                let tb = self.world.td(b.branch, b.height);
                ta.cmp(&tb)
            })
    }
}

/// The client host's wall clock may be stepped (forwards or backwards) without time passing.
static CLOCK_SKEW: std::sync::atomic::AtomicI64 = std::sync::atomic::AtomicI64::new(0);

pub fn clock_skew() -> i64 {
    CLOCK_SKEW.load(std::sync::atomic::Ordering::SeqCst)
}

/// What the client's wall clock shows at virtual time `now`.
pub fn wall_now(now: u64) -> u64 {
    (abs_now(now) as i64 + clock_skew()).max(0) as u64
}

pub fn set_faketime(ms: u64) {
    let g = ckb_systemtime::faketime();
    let ms = (ms as i64 + clock_skew()).max(0) as u64;
    g.set_faketime(ms);
    // dropping the guard would disable faketime again
    std::mem::forget(g);
}

pub fn user_op_name(op: &UserOp) -> &'static str {
    match op {
        UserOp::SetScripts { .. } => "set_scripts",
        UserOp::GetScripts => "get_scripts",
        UserOp::Audit => "audit",
        UserOp::FetchHeader(_) => "fetch_header",
        UserOp::FetchTransaction(_) => "fetch_transaction",
        UserOp::GetTransaction(_) => "get_transaction",
        UserOp::GetHeader(_) => "get_header",
        UserOp::GetTipHeader => "get_tip_header",
        UserOp::SendTransaction(_) => "send_transaction",
        UserOp::EstimateCycles(_) => "estimate_cycles",
    }
}

/// Short, deterministic description of a message for the trace.
pub fn describe(proto: Proto, data: &Bytes) -> String {
    let h = {
        let mut h: u64 = 0xcbf29ce484222325;
        for b in data.iter() {
            h ^= *b as u64;
            h = h.wrapping_mul(0x100000001b3);
        }
        h
    };
    let name = match proto {
        Proto::LightClient => packed::LightClientMessageReader::from_compatible_slice(data)
            .map(|m| m.to_enum().item_name().to_string())
            .unwrap_or_else(|_| "malformed".into()),
        Proto::Filter => packed::BlockFilterMessageReader::from_slice(data)
            .map(|m| m.to_enum().item_name().to_string())
            .unwrap_or_else(|_| "malformed".into()),
        Proto::Sync => packed::SyncMessageReader::from_compatible_slice(data)
            .map(|m| m.to_enum().item_name().to_string())
            .unwrap_or_else(|_| "malformed".into()),
        Proto::RelayV2 | Proto::RelayV3 => packed::RelayMessageReader::from_compatible_slice(data)
            .map(|m| m.to_enum().item_name().to_string())
            .unwrap_or_else(|_| "malformed".into()),
    };
    format!("{}({}B,{:08x})", name, data.len(), h as u32)
}

import sys,json,collections
c=collections.Counter(); ex={}
n=0; ev=0
for l in sys.stdin:
    d=json.loads(l)
    if 'summary' in d: print('cov',len(d['coverage'])); continue
    if 'nondeterminism' in d: print('NONDET',d); continue
    n+=1; ev+=d['events']
    ks=[v['property']+'/'+v['clause'] for v in d['violations']]
    for k in ks:
        c[k]+=1; ex.setdefault(k,[]).append(d['index'])
    if d['harness_error']: print('HARNESS',d['index'],d['harness_error'])
print('runs',n,'events',ev)
for k,v in c.most_common(): print(v,k,ex[k][:8])
